"""C09 — Excel write-then-read preserves tables across sheets, styles and spacing (openpyxl backend).

Per case (a mapping sheet name -> Excel-well-formed tables, a styles setting, sep_lines, path/BytesIO, a
sheet-name pattern) the real `write_excel` -> `read_excel` round trip is run and judged by the

  oracle      the C09 statement itself, computed in Python from the generated tables only: the tables read back
              are the written ones of the matching sheets, sheet order then table order, same name /
              destinations / orientation / column names / units / values (by value), origin sheet = sheet;
              the value grid of the saved workbook is the same with and without styles; write_excel raises
              for no setting.

and compared with the Lean model (correspondence, one driver call for all cases):

  layout      the rows the writer hands to `ws.append` (recorded by wrapping Worksheet.append inside the
              harness process)                                   vs  Grid.layoutSheet
  store       rows of `read_sheets` (what read_excel parses)      vs  Grid.store of the recorded rows and of the
              model's own layout  (this samples the external openpyxl law)
  styles      every cell carrying font / fill / alignment in the saved workbook lies in the rows of a table and
              inside the sheet (the statement of style_touches_no_value); equality with Grid.styleTargets /
              widenedColumns is reported as information only
  read        every block read_excel yields (type, origin row, sheet, value)
                                                                 vs  Grid.readExcel (Grid.writeExcel …)
  wf          the Python well-formedness predicate (written from DESIGN §3 and the StarTable marker rules,
              independent of the implementation's `_re_block_marker`)
                                                                 vs  Grid.excelWF / sheetNamesOK, incl. negative examples

Ties: the style-loop pin (style_writes_pinned) is the only source pin; everything else is correspondence / oracle, and
the correspondence is semantic: the saved value grid (modulo trailing empty rows) against Grid.store (Grid.layoutSheet),
the rows handed to ws.append only through the openpyxl law (Grid.store of what was recorded = what is read back; their
literal equality with Grid.layoutSheet is reported as information), styled cells only as "inside the rows of a table and
inside the sheet" (the theorem's statement; equality with Grid.styleTargets is information).
"""
import datetime
import io
import logging
import math
import os
import re
import shutil
import tempfile
import warnings

from harness import common, reader_common as rc, blocks_common as bc
from harness.common import Outcome, make_rng, cell_to_json, float_tok

logging.disable(logging.CRITICAL)

EXTRA = {
    "assumptions": [
        "openpyxl (ws.append / wb.save / load_workbook(read_only, data_only).iter_rows(values_only)) is external: "
        "its effect on appended rows is the stated law Grid.store (representable cells unchanged, integer-valued "
        "floats below 1e16 come back as int, rows right-padded with None to the sheet width, rows after the last "
        "cell dropped); the law is sampled against the real library on every case, not proved",
        "how openpyxl applies a Font/PatternFill/Alignment object to a cell is outside the model: the style layer "
        "of the model records only *which* cells are handed to _style_cells; that styling leaves values alone is "
        "checked on the saved files (value grid with vs without styles)",
        "sheet names are legal for openpyxl and distinct ignoring case (Grid.sheetNamesOK, a hypothesis of "
        "excel_roundtrip; outside it create_sheet raises ValueError or renames — negative cases run each time); "
        "text is free of C0 controls other than tab and line feed (a carriage return comes back as a line feed: "
        "negative case); timestamps are whole seconds from 1900-01-01; na_rep is the default '-'",
        "TIES — pins (a source change breaks a Lean theorem): only style_writes_pinned (the style loop assigns font / "
        "fill / alignment; no `.value` store anywhere in the module) and represent_consts_pinned (sealant, na_rep "
        "default), plus the C02/C03 pins of the shared reader layers. "
        "TIES — correspondence / oracle only (Gen.excel* other than the two above are informational fingerprints): "
        "saved value grid (modulo trailing empty rows) vs Grid.store (Grid.layoutSheet); the rows handed to ws.append "
        "only through the openpyxl law (Grid.store of what was recorded = what is read back; literal equality with "
        "Grid.layoutSheet is reported as information, nothing is judged when another write protocol records nothing); "
        "styled cells only as 'inside the rows of a table and inside the sheet' (equality with Grid.styleTargets and "
        "the widened columns are information); table dimensions; every block read_excel yields vs Grid.readExcel; "
        "header cells, sheet order, origin sheets, match-vs-search patterns through the oracle; the well-formedness, "
        "size and sheet-name predicates",
        "DOMAIN — sizes: cell text <= 32767 characters (openpyxl cuts longer text: long_text_is_cut), sheet columns "
        "<= 18278 (beyond it write_excel raises ValueError: too_wide_raises), sheet rows <= 1048576 (conservative; "
        "openpyxl was observed to handle 1048577); the negative stream checks that model and code agree on how the "
        "round trip fails just outside",
        "HARNESS-ONLY: the form in which the tables are passed (list, tuple, generator, iterator, map object, bare "
        "Table; per sheet in a dict or as the whole argument) is outside the model (a list of sheets of tables); every "
        "form is expected to give the same workbook — oracle and correspondence run on each",
        "HARNESS-ONLY: 'writing to a path versus a binary stream' has no Lean theorem (the model has no notion of a "
        "target): every case is written to both kinds of target and the saved value grids are compared cell by cell; "
        "the read-back oracle runs on the target drawn for the case",
        "HARNESS-ONLY / PIN: that a styled cell keeps its value is not a content of style_touches_no_value (in the "
        "model the value grid has no field a style could touch); it rests on the translator pin style_writes_pinned "
        "(the loop assigns font / fill / alignment, nothing assigns .value) and on the comparison of the saved value "
        "grids with and without styles on every styled case",
        "sheet_name_pattern is an arbitrary predicate on sheet names in the model; the harness passes the set of "
        "names the compiled pattern matches with re.match",
        "xlsxwriter backend is not installed and not covered",
    ],
    "explanation": "Props/C09.lean: excel_roundtrip (layout -> store -> split -> makeTable gives back every table, "
                   "sheet order then table order, origin sheet; hypothesis sheetNamesOK), sep_lines_irrelevant, "
                   "style_touches_no_value (what is proved: styleTargets never raises and stays inside its own "
                   "table's rows and the sheet width, for every table shape; value preservation = pin + harness grid "
                   "diff), pattern_selects; written_cells_representable keeps the layout inside the domain of "
                   "the openpyxl law.",
    "trusted_base": [
        "openpyxl 3.1.5 storage law Grid.store (sampled each run against the real library)",
    ],
}

MAX_CELL_CHARS = 32767          # openpyxl cuts longer cell text
MAX_COLUMNS = 18278             # openpyxl get_column_letter: "ZZZ"; beyond it write_excel raises ValueError
KEY_STYLE_INDEX = "styles-indexerror-last-rowwise-zero-columns"

# --------------------------------------------------------------------------- generator (spec level)

# astral characters (outside the Basic Multilingual Plane): U+1F600, U+1D538, U+20000
ASTRAL = ["\U0001F600", "\U0001D538", "\U00020000"]
TEXT_ALPHA = list("abcxyzABZ019 _-.,;:*#%/()é µΩ中") + ["ß", "ø", "'", '"', "&", "<", ">", "\t", "\n"] + ASTRAL + \
    ["\x85", "\u2028", "\u2029", "\ufeff"]       # line breaks of str.splitlines() that XML keeps, a BOM inside a value
NAME_ALPHA = list("abcdxyT01_- é") + ASTRAL
UNITS_NUM = ["-", "m", "kg", "mm", "°C", "m/s", "1/s", "%", "N m", "Text", "ONOFF", "µm", "KG", "Kg", "M", "\U0001D538m", "\U00020000"]
SHEET_NAMES = ["Sheet1", "data", "in put", "Tab_2", "résumé", "A", "x1", "sheet one", "Ωmega", "out", "in", "input_2",
               "123", "a.b", "tab-3", "S\U0001F600\U0001D538", " x ", "lead ", " tr ail"]
TEXT_FIXED = ["ratio a:b", "12:30", "C:\\data", "x: y", "a:b:c", "t 1:2 ", "a\nb", "a\tb", " lead\n", "x\n\ny", "-", "nan", "None", "1.5", "12", "k:", "**x", ":a", " u ", "x" * 40, "TRUE", "2020-01-02", "a=b", "é µ", "\U0001F600", "x\U00020000y\U0001D538", "\ufeffbom", "a\x85b", "a\u2028b",
              "#N/A", "  lead", "trail  ", "0", "*", "a:b"]
FLOATS_FIXED = [0.0, -0.0, 1.0, 2.0, -3.0, 2.5, 0.1, 1e20, 1e15, 1e16, -1e-7, 123456.789, 3.14159265358979,
                1e-300, 1e300, 999999999999999.0, 0.001, 100.0, float("nan")]
INTS_FIXED = [0, 1, -1, 2, 10, -17, 123456789, 999999999999999, -999999999999999]
# names colliding (also ignoring case) with the title openpyxl gives its default sheet, and their de-duplicated forms
DEFAULT_TITLE_NAMES = ["Sheet", "sheet", "SHEET", "Sheet1", "Sheet11", "Sheet2"]
PATTERNS = [None, None, r"DATA", r"sheet\d*$", r"TAB|OUT", r"", r"in", r"S", r"[a-z]", r".*t", r"data$", r"[A-Z]", r"x1|out", r"\d", r"nomatch",
            r"Sheet$", r"Sheet1", r"(?i)sheet$", r"Sheet\d+$"]


def classify_py(s):
    """is the string cell a block start marker?  Written from the StarTable rules, independently of the
    implementation's regex (the well-formedness predicate must not move with the code under test):
      `**x` / `***x`   exactly two or three leading stars;
      `:x` `::x` `:::x` one to three leading colons and no colon afterwards;
      `key:`           a non-empty colon-free key, one colon, then nothing but whitespace."""
    stars = len(s) - len(s.lstrip("*"))
    if stars in (2, 3):
        return True
    colons = len(s) - len(s.lstrip(":"))
    if 1 <= colons <= 3 and ":" not in s[colons:]:
        return True
    i = s.find(":")
    return i > 0 and all(is_space(c) for c in s[i + 1:])


def is_space(c):
    return ord(c) in rc.SPACE_CPS


def text_ok(s):
    return bool(s) and not s.startswith("=") and all(char_ok(c) for c in s) and not all(is_space(c) for c in s) \
        and len(s) <= MAX_CELL_CHARS


def char_ok(c):
    """what openpyxl gives back unchanged: U+0020 and above, tab, line feed (a carriage return comes back as \\n)"""
    return (ord(c) >= 32 or c in "\t\n") and ord(c) not in (0xFFFE, 0xFFFF) and not 0xD800 <= ord(c) <= 0xDFFF


def sheet_key(n):
    return "".join(c.lower() if ord(c) < 128 else "?" for c in n)


def sheet_names_ok(names):
    """legal for openpyxl and distinct ignoring case (non-ASCII characters all identified: conservative)"""
    if not names:
        return False                  # a workbook without a sheet cannot be saved
    for n in names:
        if not n or len(n) > 31 or any(ord(c) < 32 or ord(c) in (0xFFFE, 0xFFFF) or c in "\\/?*[]:" for c in n):
            return False
    keys = [sheet_key(n) for n in names]
    return len(set(keys)) == len(keys)


LONG_LENGTHS = [41, 64, 100, 254, 255, 256, 257, 300, 1000]


def rand_text(rng, first_col=False):
    for _ in range(50):
        r = rng.random()
        if r < 0.35:
            s = rng.choice(TEXT_FIXED)
        elif r < 0.43:
            s = "".join(rng.choice(TEXT_ALPHA) for _ in range(rng.choice(LONG_LENGTHS)))      # long text
        else:
            s = "".join(rng.choice(TEXT_ALPHA) for _ in range(rng.randint(1, 8)))
        if not text_ok(s):
            continue
        if first_col and classify_py(s):
            continue
        return s
    return "x"


def case_variant(rng, base):
    """a different name that differs from `base` only in letter case or Unicode normal form (or None)"""
    import unicodedata
    cands = [base.swapcase(), base.upper(), base.lower(), base.title(), unicodedata.normalize("NFD", base),
             unicodedata.normalize("NFC", base), base.replace("ss", "ß"), base.replace("ß", "ss")]
    cands = [c for c in cands if c != base]
    return rng.choice(cands) if cands else None


def rand_name(rng, used, no_marker):
    if used and rng.random() < 0.25:
        # names that differ only in letter case / normal form are different names
        v = case_variant(rng, rng.choice(sorted(used)))
        if v and v not in used and text_ok(v) and v == v.strip() and not (no_marker and classify_py(v)):
            return v
    for _ in range(100):
        n_chars = rng.choice(LONG_LENGTHS[:7]) if rng.random() < 0.05 else rng.randint(1, 5)
        s = "".join(rng.choice(NAME_ALPHA) for _ in range(n_chars)).strip()
        if rng.random() < 0.1:
            s = rng.choice(["a:b", "k:", "*x", "12", "a b c", "ÆØ", "a\nb", "x\ty"])
        if not text_ok(s) or s != s.strip() or s in used:
            continue
        if no_marker and classify_py(s):
            continue
        return s
    return "c%d" % len(used)


def rand_float(rng):
    r = rng.random()
    if r < 0.35:
        return rng.choice(FLOATS_FIXED)
    if r < 0.55:
        return float(rng.randint(-1000, 1000))
    if r < 0.8:
        return round(rng.uniform(-1000, 1000), rng.randint(0, 8))
    x = float("%.15g" % (rng.uniform(-1, 1) * 10 ** rng.randint(-20, 20)))
    return x


def rand_dt(rng):
    if rng.random() < 0.2:
        return None
    if rng.random() < 0.12:
        # far years: pandas 3 keeps them at [s]/[ms]/[us]; Excel starts at 1900
        from harness.write_common import YEAR_EDGES
        year = rng.choice([y for y in YEAR_EDGES if y >= 1900])
        return datetime.datetime(year, rng.randint(1, 12), rng.randint(1, 28), rng.randint(0, 23), rng.randint(0, 59),
                                 rng.randint(0, 59)).isoformat()
    if rng.random() < 0.15:
        return rng.choice(["1900-01-01T00:00:00", "1900-01-01T00:00:01", "1900-02-28T23:59:59", "1900-01-31T13:14:15",
                           "1900-03-01T00:00:00", "1900-03-01T00:00:01", "1999-12-31T23:59:59", "2000-02-29T12:00:00",
                           "2199-12-31T23:59:59", "1970-01-01T00:00:00"])
    if rng.random() < 0.1:
        d = datetime.datetime(1900, 1, 1) + datetime.timedelta(seconds=rng.randint(0, 59 * 86400 - 1))
    else:
        d = datetime.datetime(1900, 1, 1) + datetime.timedelta(seconds=rng.randint(0, 9_400_000_000))
    if rng.random() < 0.3:
        d = d.replace(hour=0, minute=0, second=0)
    return d.isoformat()


def gen_table(rng, k):
    n_col = rng.choice([0, 1, 1, 2, 2, 3, 4])
    n_row = rng.choice([0, 1, 1, 2, 3, 5])
    transposed = rng.random() < 0.45
    n_chars = rng.choice(LONG_LENGTHS) if rng.random() < 0.05 else rng.randint(0, 6)
    name = "".join(rng.choice(NAME_ALPHA + ["*", "\t", "\n"]) for _ in range(n_chars))
    if rng.random() < 0.5:
        name = name.strip()
    while name.startswith("*") or name.endswith("*"):
        name = name.strip("*")
    if transposed and not name:
        name = "t%d" % k
    if name.startswith("=") or not all(char_ok(c) for c in name):
        name = "t%d" % k
    dests = set()
    for _ in range(rng.choice([1, 1, 1, 2, 3, 5, 7])):
        d = rng.choice(["all", "a", "b", "your_farm", "x-1", "é", "D", "me,you", "42", "d\U0001F600", "\U00020000\U0001D538"])
        dests.add(d)
    cols, used = [], set()
    for j in range(n_col):
        kind = rng.choice(["text", "onoff", "datetime", "num", "num", "int"])
        no_marker = transposed or j == 0
        cname = rand_name(rng, used, no_marker)
        used.add(cname)
        if kind in ("num", "int"):
            unit = rng.choice(UNITS_NUM)
        else:
            unit = kind
        if kind == "text":
            vals = [rand_text(rng, first_col=(j == 0 and not transposed)) for _ in range(n_row)]
        elif kind == "onoff":
            vals = [rng.random() < 0.5 for _ in range(n_row)]
        elif kind == "datetime":
            vals = [rand_dt(rng) for _ in range(n_row)]
        elif kind == "num":
            vals = [float_tok(rand_float(rng)) for _ in range(n_row)]
        else:
            vals = [rng.choice(INTS_FIXED) if rng.random() < 0.4 else rng.randint(-10 ** 6, 10 ** 6) for _ in range(n_row)]
        col = {"name": cname, "unit": unit, "kind": kind, "values": vals}
        if kind == "int" and rng.random() < 0.3:
            # pandas' nullable Int64 with pd.NA holes (None in the spec): written as na_rep, read back as NaN
            col["nullable"] = True
            col["values"] = [None if rng.random() < 0.3 else v for v in vals]
        if kind == "text" and rng.random() < 0.3:
            col["text_dtype"] = "str"         # pandas' string dtype instead of object
        if kind == "datetime":
            # resolution of the datetime64 column holding these instants ([ns] only reaches 2262-04-11)
            fits_ns = all(v is None or v[:4] < "2262" for v in vals)
            col["res"] = rng.choice(["s", "ms", "us", "us"] + (["ns", "ns"] if fits_ns else []))
        cols.append(col)
    spec = {"name": name, "destinations": sorted(dests), "transposed": transposed, "columns": cols}
    if n_col and n_row and rng.random() < 0.3:
        # row labels of the backing frame are no part of a table: shifted, reversed, permuted, strings, duplicates
        spec["row_labels"] = rng.choice(["shift", "reverse", "perm", "str", "dup"])
        spec["row_labels_seed"] = rng.randint(0, 10 ** 6)
    if n_col >= 2 and rng.random() < 0.3:
        # edit-then-write history: the table is built with its columns in another order, consulted once, and its
        # backing frame is then re-arranged in place to the order of `columns` before it is written
        order = list(range(n_col))
        while order == list(range(n_col)):
            rng.shuffle(order)
        spec["built_order"] = order
    return spec


def gen_sheets(rng):
    n = rng.choice([1, 1, 2, 2, 3, 3, 5, 6])
    names = []
    pool = DEFAULT_TITLE_NAMES if rng.random() < 0.3 else SHEET_NAMES + DEFAULT_TITLE_NAMES
    n = min(n, len({x.lower() for x in pool}))          # the pool may hold fewer names that are distinct ignoring case
    while len(names) < n:
        s = rng.choice(pool)
        if s.lower() not in [x.lower() for x in names]:
            names.append(s)
    k = 0
    sheets = []
    for s in names:
        tabs = []
        for _ in range(rng.choice([0, 1, 1, 2, 2, 3, 3, 6, 8])):
            tabs.append(gen_table(rng, k))
            k += 1
        if len(tabs) >= 2 and rng.random() < 0.25:
            # two tables of one sheet whose names differ only in letter case / normal form
            v = case_variant(rng, tabs[0]["name"])
            if v is not None and not (v.startswith("*") or v.endswith("*")) and all(char_ok(c) for c in v):
                tabs[1]["name"] = v
        sheet = {"name": s, "tables": tabs}
        # the form in which the sheet's tables are handed to write_excel (same workbook expected for every form)
        forms = ["list", "list", "tuple", "generator", "iter", "map"] + (["bare", "bare"] if len(tabs) == 1 else [])
        sheet["form"] = rng.choice(forms)
        sheets.append(sheet)
    if len(sheets) == 1 and rng.random() < 0.3:
        # the tables as the whole argument (no dict): written to the default sheet name
        sheets[0]["name"] = "Sheet1"
        sheets[0]["whole"] = True
    return sheets


def tables_form(tabs, form):
    """a fresh argument of the given form over the tables (one-shot forms are consumed by one write)"""
    if form == "bare" and len(tabs) == 1:
        return tabs[0]
    if form == "tuple":
        return tuple(tabs)
    if form == "generator":
        return (t for t in tabs)
    if form == "iter":
        return iter(list(tabs))
    if form == "map":
        return map(lambda t: t, tabs)
    return list(tabs)


def tables_argument(sheets, real):
    """what is passed as `tables` to write_excel for a case; call once per write"""
    def form(s):
        return "bare" if s.get("bare") else s.get("form", "list")
    if len(sheets) == 1 and sheets[0].get("whole") and sheets[0]["name"] == "Sheet1":
        return tables_form(real["Sheet1"], form(sheets[0]))
    return {s["name"]: tables_form(real[s["name"]], form(s)) for s in sheets}


CUSTOM_STYLES = [
    # every part a distinct fill: which part a cell belongs to is readable from the saved file
    {"table_name": {"fill": {"color": "AA0001"}}, "destinations": {"fill": {"color": "AA0002"}},
     "column_names": {"fill": {"color": "AA0003"}}, "units": {"fill": {"color": "AA0004"}},
     "values": {"fill": {"color": "AA0005"}}},
    # alignment given for values and units: the transposed centring default is switched off
    {"table_name": {"font": {"bold": True, "color": "123456"}}, "values": {"alignment": {"horizontal": "right"},
                                                                            "fill": {"color": "BB0005"}},
     "units": {"alignment": {"horizontal": "left"}, "font": {"italic": True, "bold": True}}},
    # parts omitted / empty
    {"column_names": {"font": {"bold": True}}, "values": {}},
    {"destinations": {"fill": {"color": "CC0002"}, "alignment": {"horizontal": "center"}},
     "values": {"font": {"color": "00FF00"}}},
]


def styles_arg(tag):
    if tag == "False":
        return False
    if tag == "True":
        return True
    return CUSTOM_STYLES[int(tag.split(":")[1])]


# --------------------------------------------------------------------------- spec -> real tables / model json

def build_table(spec):
    import numpy as np
    import pandas as pd
    from pdtable import Table
    data = {}
    final = spec["columns"]
    built = [final[i] for i in spec["built_order"]] if spec.get("built_order") else final
    for c in built:
        k, v = c["kind"], c["values"]
        if k == "text":
            data[c["name"]] = pd.Series(v, dtype="str" if c.get("text_dtype") == "str" else object)
        elif k == "onoff":
            data[c["name"]] = pd.Series(v, dtype=bool)
        elif k == "datetime":
            res = c.get("res") or ("ns" if all(x is None or x[:4] < "2262" for x in v) else "us")
            data[c["name"]] = pd.Series([pd.NaT if x is None else pd.Timestamp(x) for x in v],
                                        dtype="datetime64[%s]" % res)
        elif k == "num":
            data[c["name"]] = pd.Series([float(x) for x in v], dtype=np.float64)
        else:
            data[c["name"]] = pd.Series(pd.array([pd.NA if x is None else x for x in v], dtype="Int64")) \
                if c.get("nullable") else pd.Series(v, dtype=np.int64)
    frame_index = None
    n_rows = len(final[0]["values"]) if final else 0
    if spec.get("row_labels") and n_rows:
        import random as _random
        r = _random.Random(spec.get("row_labels_seed", 0))
        kind = spec["row_labels"]
        if kind == "shift":
            frame_index = [i + 7 for i in range(n_rows)]
        elif kind == "reverse":
            frame_index = list(range(n_rows))[::-1]
        elif kind == "perm":
            frame_index = list(range(n_rows))
            r.shuffle(frame_index)
        elif kind == "str":
            frame_index = ["r%d" % r.randint(0, 99) + "_%d" % i for i in range(n_rows)]
        else:
            frame_index = [r.randint(0, max(0, n_rows // 2)) for _ in range(n_rows)]      # duplicate labels
    with warnings.catch_warnings():
        warnings.simplefilter("ignore")
        if not spec["columns"]:
            t = Table(name=spec["name"], destinations=set(spec["destinations"]))
            t.metadata.transposed = spec["transposed"]
        else:
            frame = pd.DataFrame(data)
            if frame_index is not None:
                frame.index = frame_index
            t = Table(frame, name=spec["name"], units=[c["unit"] for c in built],
                      destinations=set(spec["destinations"]), transposed=spec["transposed"])
            if spec.get("built_order"):
                # consult the table once, then re-arrange the backing frame in place (plain pandas) to the final order
                assert t.units == [c["unit"] for c in built] and t.column_names == [c["name"] for c in built]
                for c in reversed(final):
                    t.df.insert(0, c["name"], t.df.pop(c["name"]))
    return t


def model_table(t):
    """the real Table as the writers see it -> the model's TableVal (destinations in set iteration order)"""
    import pandas as pd
    df = t.df
    cols = []
    for name, unit in zip(df.columns, t.units):
        s = df[name]
        kind = s.dtype.kind
        vals = []
        for x in s.tolist():
            if kind == "b":
                vals.append({"b": bool(x)})
            elif kind == "f":
                vals.append({"n": float_tok(float(x))})
            elif kind in "iu":
                vals.append({"n": "nan"} if pd.isna(x) else {"i": int(x)})
            elif kind == "M":
                vals.append({"d": "NaT" if pd.isna(x) else pd.Timestamp(x).isoformat()})
            else:
                vals.append({"t": str(x)})
        cols.append({"name": str(name), "unit": str(unit), "values": vals})
    return {"name": t.name, "destinations": [str(d) for d in t.metadata.destinations],
            "transposed": bool(t.metadata.transposed), "columns": cols}


# --------------------------------------------------------------------------- python side of the WF predicate

def sig15(tok):
    x = float(tok)
    return math.isfinite(x) and float("%.15g" % x) == x


def dt_ok(tok):
    if tok is None or tok == "NaT":
        return True
    return len(tok) == 19 and "." not in tok and tok[:10] >= "1900-01-01"


def py_wf(spec):
    """DESIGN §3 clauses 1-6 for Excel on a spec (independent of the Lean model)"""
    name = spec["name"]
    if not all(char_ok(c) for c in name):
        return False
    n_rows = len(spec["columns"][0]["values"]) if spec["columns"] else 0
    true_cols = n_rows + 2 if spec["transposed"] else len(spec["columns"])
    if len(name) + 3 > MAX_CELL_CHARS or len(" ".join(spec["destinations"])) > MAX_CELL_CHARS or true_cols > MAX_COLUMNS:
        return False
    if name.startswith("*") or name.endswith("*") or (spec["transposed"] and not name):
        return False
    ds = spec["destinations"]
    if not ds or len(set(ds)) != len(ds):
        return False
    for d in ds:
        if not d or any(is_space(c) or c == ":" or not char_ok(c) for c in d) \
                or d[0] in "*=":
            return False
    cols = spec["columns"]
    names = [c["name"] for c in cols]
    if len(set(names)) != len(names):
        return False
    m = len(cols[0]["values"]) if cols else 0
    for j, c in enumerate(cols):
        if not (text_ok(c["name"]) and rc_strip(c["name"]) == c["name"] and text_ok(c["unit"])
                and rc_strip(c["unit"]) == c["unit"] and len(c["values"]) == m):
            return False
        u = c["unit"]
        for v in c["values"]:
            k = c["kind"]
            if k == "text":
                ok = u == "text" and isinstance(v, str) and text_ok(v)
            elif k == "onoff":
                ok = u == "onoff"
            elif k == "datetime":
                ok = u == "datetime" and dt_ok(v)
            elif k == "num":
                ok = u not in ("text", "onoff", "datetime") and (v == "nan" or sig15(v))
            else:
                ok = u not in ("text", "onoff", "datetime") and (v is None or abs(v) < 10 ** 15)
            if not ok:
                return False
    if spec["transposed"]:
        return not any(classify_py(n) for n in names)
    if cols:
        c = cols[0]
        if classify_py(c["name"]) or classify_py(c["unit"]):
            return False
        if c["kind"] == "text" and any(classify_py(v) for v in c["values"]):
            return False
    return True


def rc_strip(s):
    i, j = 0, len(s)
    while i < j and is_space(s[i]):
        i += 1
    while j > i and is_space(s[j - 1]):
        j -= 1
    return s[i:j]


NEGATIVE = [
    # (what, spec) — each violates one clause; the real round trip is expected to lose the table
    ("empty text cell", {"name": "t", "destinations": ["all"], "transposed": False, "columns": [
        {"name": "a", "unit": "m", "kind": "num", "values": ["1.5"]},
        {"name": "b", "unit": "text", "kind": "text", "values": [""]}]}),
    ("formula-like text", {"name": "t", "destinations": ["all"], "transposed": False, "columns": [
        {"name": "a", "unit": "text", "kind": "text", "values": ["=1+1"]}]}),
    ("marker in first column", {"name": "t", "destinations": ["all"], "transposed": False, "columns": [
        {"name": "a", "unit": "text", "kind": "text", "values": ["x", "k:", "y"]}]}),
    ("blank first-column text", {"name": "t", "destinations": ["all"], "transposed": False, "columns": [
        {"name": "a", "unit": "text", "kind": "text", "values": ["x", " ", "y"]}]}),
    ("untrimmed column name", {"name": "t", "destinations": ["all"], "transposed": False, "columns": [
        {"name": " a", "unit": "m", "kind": "num", "values": ["1.0"]}]}),
    ("marker as first column name", {"name": "t", "destinations": ["all"], "transposed": False, "columns": [
        {"name": "a:", "unit": "m", "kind": "num", "values": ["1.0"]}]}),
    ("marker as transposed column name", {"name": "t", "destinations": ["all"], "transposed": True, "columns": [
        {"name": "x", "unit": "m", "kind": "num", "values": ["1.0"]},
        {"name": "a:", "unit": "m", "kind": "num", "values": ["1.0"]}]}),
    ("name ends with a star", {"name": "t*", "destinations": ["all"], "transposed": False, "columns": [
        {"name": "a", "unit": "m", "kind": "num", "values": ["1.0"]}]}),
    ("destination with a colon", {"name": "t", "destinations": ["a:"], "transposed": False, "columns": [
        {"name": "a", "unit": "m", "kind": "num", "values": ["1.0"]}]}),
    ("17 significant digits", {"name": "t", "destinations": ["all"], "transposed": False, "columns": [
        {"name": "a", "unit": "m", "kind": "num", "values": ["0.12345678901234568"]}]}),
    ("sub-second timestamp", {"name": "t", "destinations": ["all"], "transposed": False, "columns": [
        {"name": "a", "unit": "datetime", "kind": "datetime", "values": ["2020-01-02T03:04:05.000007"]}]}),
    ("carriage return in text", {"name": "t", "destinations": ["all"], "transposed": False, "columns": [
        {"name": "a", "unit": "text", "kind": "text", "values": ["a\rb"]}]}),
    ("timestamp before 1900-01-01", {"name": "t", "destinations": ["all"], "transposed": False, "columns": [
        {"name": "a", "unit": "datetime", "kind": "datetime", "values": ["1899-12-31T00:00:00"]}]}),
]
NEGATIVE += [
    ("text of 32768 characters", {"name": "t", "destinations": ["all"], "transposed": False, "columns": [
        {"name": "a", "unit": "text", "kind": "text", "values": ["x" * (MAX_CELL_CHARS + 1), "y"]}]}),
    ("table name of 40000 characters", {"name": "n" * 40000, "destinations": ["all"], "transposed": False, "columns": [
        {"name": "a", "unit": "m", "kind": "num", "values": ["1.0"]}]}),
    ("transposed table name of 32765 characters (the star is cut off)",
     {"name": "n" * (MAX_CELL_CHARS - 2), "destinations": ["all"], "transposed": True, "columns": [
         {"name": "a", "unit": "m", "kind": "num", "values": ["1.0"]}]}),
    ("unit of 32768 characters", {"name": "t", "destinations": ["all"], "transposed": False, "columns": [
        {"name": "a", "unit": "u" * (MAX_CELL_CHARS + 1), "kind": "num", "values": ["1.0"]}]}),
    ("transposed table with 18277 rows (18279 sheet columns)",
     {"name": "t", "destinations": ["all"], "transposed": True, "columns": [
         {"name": "a", "unit": "m", "kind": "num", "values": ["1.0"] * (MAX_COLUMNS - 1)}]}),
    ("row-wise table with 18279 columns", {"name": "t", "destinations": ["all"], "transposed": False, "columns": [
        {"name": "c%d" % j, "unit": "m", "kind": "num", "values": ["1.0"]} for j in range(MAX_COLUMNS + 1)]}),
]
# outside the domain of the openpyxl law (rounded / normalised by the file format): no model comparison
OUT_OF_LAW = ("17 significant digits", "sub-second timestamp", "carriage return in text", "timestamp before 1900-01-01")

_T1 = {"name": "t", "destinations": ["all"], "transposed": False, "columns": [
    {"name": "a", "unit": "m", "kind": "num", "values": ["1.0"]}]}
# sheet-name negatives: (what, names, expected real behaviour) — mirrored by `example`s in Props/C09.lean
NEGATIVE_SHEETS = [
    ("illegal character in a sheet name", ["a/b"], "ValueError"),
    ("sheet names equal ignoring case", ["A", "a"], ["A", "a1"]),
    ("empty sheet name", [""], ["Sheet"]),
    ("no sheet at all", [], "IndexError"),
]
SHEET_NAME_PROBES = [["x" * 31], ["x" * 32], ["é", "ü"], ["Sheet", "SHEET"], ["a:b"], ["a]"], ["ok", "Ok "], ["q?"]]


# --------------------------------------------------------------------------- implementation runners

def norm_cell(x):
    """a value handed to ws.append -> plain Python value"""
    import numpy as np
    import pandas as pd
    if isinstance(x, (np.bool_,)):
        return bool(x)
    if isinstance(x, np.integer):
        return int(x)
    if isinstance(x, np.floating):
        return float(x)
    if isinstance(x, pd.Timestamp):
        return x.to_pydatetime()
    return x


class AppendRecorder:
    """wraps Worksheet.append inside this process: rows per sheet title, as the writer produced them"""

    def __init__(self):
        self.rows = {}

    def __enter__(self):
        from openpyxl.worksheet.worksheet import Worksheet
        self._ws = Worksheet
        self._orig = Worksheet.append
        rec = self

        def append(ws, iterable):
            row = list(iterable)
            rec.rows.setdefault(ws.title, []).append([norm_cell(c) for c in row])
            return rec._orig(ws, row)
        Worksheet.append = append
        return self

    def __exit__(self, *a):
        self._ws.append = self._orig


def write_wb(tables, styles, sep, target_kind, tmp, tag, na_rep="-"):
    """-> (source to read from, bytes of the file, recorded append rows) or raises"""
    from pdtable import write_excel
    with AppendRecorder() as rec, warnings.catch_warnings():
        warnings.simplefilter("ignore")
        if target_kind == "path":
            p = os.path.join(tmp, tag + ".xlsx")
            write_excel(tables, p, sep_lines=sep, styles=styles, na_rep=na_rep)
            with open(p, "rb") as f:
                data = f.read()
        else:
            buf = io.BytesIO()
            write_excel(tables, buf, sep_lines=sep, styles=styles, na_rep=na_rep)
            if buf.closed:
                raise AssertionError("write_excel closed the caller's stream")
            data = buf.getvalue()
    return data, rec.rows


def value_grid(data):
    import openpyxl
    wb = openpyxl.load_workbook(io.BytesIO(data), read_only=True, data_only=True)
    try:
        return [(ws.title, [list(r) for r in ws.iter_rows(values_only=True)]) for ws in wb.worksheets]
    finally:
        wb.close()


def sheets_via_pdtable(source):
    from pdtable.io._excel_openpyxl import read_sheets
    out = []
    for name, it in read_sheets(source):
        out.append((name, [list(r) for r in it]))
    return out


def rgb(color):
    if color is None or getattr(color, "type", None) != "rgb" or color.rgb is None:
        return None
    v = color.rgb
    return v[-6:].upper() if isinstance(v, str) else None


def style_signatures(data):
    """per sheet: {(row, col): (bold, italic, font rgb, fill rgb, horizontal)} for cells differing from the default,
    and the widened columns (0-based)"""
    import openpyxl
    from openpyxl.utils import column_index_from_string
    wb = openpyxl.load_workbook(io.BytesIO(data))
    res = {}
    for ws in wb.worksheets:
        sig = {}
        for row in ws.iter_rows():
            for c in row:
                f, fl, al = c.font, c.fill, c.alignment
                s = (bool(f.b), bool(f.i), rgb(f.color), rgb(fl.start_color) if fl.fill_type == "solid" else None,
                     al.horizontal)
                if s != (False, False, None, None, None):
                    sig[(c.row - 1, c.column - 1)] = s
        wid = sorted(column_index_from_string(k) - 1 for k, d in ws.column_dimensions.items()
                     if d.width is not None and abs(d.width - 20) < 1e-9 and d.customWidth)
        res[ws.title] = (sig, wid)
    return res


def expected_signatures(targets, spec_styles):
    """simulate _style_cells over the model's targets in order -> {(row, col): signature}"""
    spec = CUSTOM_DEFAULT if spec_styles is True else spec_styles
    sig = {}

    def horiz(part):
        return ((spec.get(part) or {}).get("alignment") or {}).get("horizontal")
    for k, r, c, part in targets:
        if part in ("centered_units", "centered_values"):
            base = "units" if part == "centered_units" else "values"
            if horiz(base):
                continue
            st = {"alignment": {"horizontal": "center"}}
        else:
            st = spec.get(part)
        if st is None:
            continue
        b, i, fc, fill, h = sig.get((r, c), (False, False, None, None, None))
        fa = st.get("font")
        if fa:
            b, i, fc = bool(fa.get("bold")), bool(fa.get("italic")), (fa.get("color") or None)
            fc = fc[-6:].upper() if fc else None
        col = (st.get("fill") or {}).get("color")
        if col:
            fill = col[-6:].upper()
        aa = st.get("alignment")
        if aa:
            h = aa.get("horizontal")
        sig[(r, c)] = (b, i, fc, fill, h)
    return {k: v for k, v in sig.items() if v != (False, False, None, None, None)}


def _default_spec():
    from pdtable.io._excel_write_helper import DEFAULT_STYLE_SPEC
    return DEFAULT_STYLE_SPEC


class _Lazy(dict):
    def __missing__(self, k):
        raise KeyError(k)


CUSTOM_DEFAULT = None


def canon_expected_table(spec):
    """the oracle's view of a written table (values as Python values)"""
    cols = []
    for c in spec["columns"]:
        k = c["kind"]
        if k == "num":
            cols.append(("num", [float(x) for x in c["values"]]))
        elif k == "int":
            cols.append(("num", [float("nan") if x is None else float(x) for x in c["values"]]))
        elif k == "datetime":
            cols.append(("dt", ["NaT" if x is None else x for x in c["values"]]))
        elif k == "onoff":
            cols.append(("onoff", list(c["values"])))
        else:
            cols.append(("text", list(c["values"])))
    return {"name": spec["name"], "destinations": sorted(spec["destinations"]), "transposed": spec["transposed"],
            "names": [c["name"] for c in spec["columns"]], "units": [c["unit"] for c in spec["columns"]],
            "columns": cols}


def same_table(exp, got):
    """got = rc.canon_table dict; -> None or a description of the first difference"""
    for k in ("name", "destinations", "transposed", "names", "units"):
        if exp[k] != got[k]:
            return f"{k}: {got[k]!r} != {exp[k]!r}"
    for j, ((kind, vals), g) in enumerate(zip(exp["columns"], got["columns"])):
        if not vals:
            if g["v"]:
                return f"column {j}: values appeared"
            continue
        if g["k"] != kind:
            return f"column {j}: kind {g['k']} != {kind}"
        if len(g["v"]) != len(vals):
            return f"column {j}: {len(g['v'])} values != {len(vals)}"
        for i, (a, b) in enumerate(zip(vals, g["v"])):
            if kind == "num":
                fb = float(b)
                if not ((math.isnan(a) and math.isnan(fb)) or a == fb):
                    return f"column {j} row {i}: {b} != {a!r}"
            elif a != b:
                return f"column {j} row {i}: {b!r} != {a!r}"
    return None


def compile_pattern(pattern, flags):
    """the compiled sheet_name_pattern of a case (flags live in the compiled object, not in the pattern text)"""
    return re.compile(pattern, re.IGNORECASE if flags == "I" else 0)


def read_back(source, pattern, origin_mode=None, flags=None):
    """-> ({"blocks": [...], "ending": ...}, [(sheet, canon_table)]) from the real read_excel"""
    from pdtable import read_excel
    from pdtable.table_origin import InputError
    blocks, tabs, ending = [], [], "exhausted"
    kw = {}
    if pattern is not None:
        kw["sheet_name_pattern"] = compile_pattern(pattern, flags)
    if origin_mode == "origin":
        kw["origin"] = "spec given by the caller"
    elif origin_mode == "location_file":
        from pdtable.table_origin import NullLocationFile
        kw["location_file"] = NullLocationFile("caller's file")
    try:
        with warnings.catch_warnings():
            warnings.simplefilter("ignore")
            for bt, val in read_excel(source, **kw):
                first = sheet = None
                try:
                    loc = val.metadata.origin.input_location
                    first, sheet = loc.row, loc.sheet_name
                except AttributeError:
                    pass
                blocks.append({"sheet": sheet, "ty": bt.name, "first": first, "val": bc.canon_block(bt, val, "pdtable")})
                if bt.name == "TABLE":
                    tabs.append((sheet, rc.canon_table(val)))
    except InputError as e:
        issue = e.args[0]
        ending = {"InputError": getattr(getattr(issue, "load_location", None), "row", None)}
    except Exception as e:  # noqa: BLE001
        ending = {"escaped": type(e).__name__}
    return {"blocks": blocks, "ending": ending}, tabs


def canon_model_read(ans):
    """model read result -> implementation shape (sheet / origin row only where the implementation exposes them)"""
    out = []
    for b in ans["blocks"]:
        v, first, sheet = b["val"], b["first"], b["sheet"]
        if "table" in v:
            t = dict(v["table"])
            t["destinations"] = sorted(set(t["destinations"]))
            v = {"table": t}
        else:
            first = sheet = None
        out.append({"sheet": sheet, "ty": b["ty"], "first": first, "val": v})
    return {"blocks": out, "ending": ans["ending"]}


# --------------------------------------------------------------------------- one case

def run_case(case, out, tmp, model_ok, ops, pend, oracle=True):
    """runs the real code for one case, evaluates the oracle, queues the model ops"""
    global CUSTOM_DEFAULT
    if CUSTOM_DEFAULT is None:
        CUSTOM_DEFAULT = _default_spec()
    sheets = case["sheets"]
    styles = styles_arg(case["styles"])
    sep, pattern, kind = case["sep"], case["pattern"], case["target"]
    real = {s["name"]: [build_table(t) for t in s["tables"]] for s in sheets}

    class _Fresh:
        """a new argument object for every write (generators / iterators / map objects are one-shot)"""
        def __call__(self):
            return tables_argument(sheets, real)
    arg = _Fresh()
    mt = [{"name": s["name"], "tables": [model_table(t) for t in real[s["name"]]]} for s in sheets]
    tag = "c%s" % case.get("index", "r")
    na_rep = case.get("na_rep", "-")
    origin_mode = case.get("origin_mode")
    brief = {k: case[k] for k in ("seed", "index", "styles", "sep", "target", "pattern", "pattern_flags", "na_rep", "origin_mode")
             if k in case}
    brief["sheets"] = sheets

    # ---- write (the setting under test) and, if styled, the unstyled twin
    try:
        first_arg = arg()
        snapshot = [(k, v if not isinstance(v, list) else list(v)) for k, v in first_arg.items()] \
            if isinstance(first_arg, dict) else None
        data, appended = write_wb(first_arg, styles, sep, kind, tmp, tag, na_rep)
        if snapshot is not None and oracle:
            now = [(k, v if not isinstance(v, list) else list(v)) for k, v in first_arg.items()]
            same = len(now) == len(snapshot) and all(
                k1 == k2 and (v1 is v2 if not isinstance(v1, list) else (len(v1) == len(v2) and all(
                    a is b for a, b in zip(v1, v2)))) for (k1, v1), (k2, v2) in zip(snapshot, now))
            if not same:
                out.fail("write_excel modified the mapping the caller passed", brief, [k for k, _ in now],
                         [k for k, _ in snapshot], key="caller_mapping_modified")
    except Exception as e:  # noqa: BLE001
        last_zero = any(s["tables"] and not s["tables"][-1]["columns"] and not s["tables"][-1]["transposed"]
                        for s in sheets)
        key = KEY_STYLE_INDEX if (isinstance(e, IndexError) and styles and last_zero) else "write_raises:" + type(e).__name__
        if oracle:
            out.fail("write_excel raised for well-formed tables", brief, type(e).__name__ + ": " + str(e)[:200],
                     "a workbook", key=key)
        if model_ok:
            ops.append({"op": "grid_write_read", "sheets": mt, "sep": sep, "naRep": na_rep, "styles": bool(styles),
                        "match": None, "ext": rc.ext_tables([]), "fixer": rc.FIXERS["strict"]})
            pend.append(("write_exc", brief, {"exc": type(e).__name__}))
        return
    grid = value_grid(data)
    if styles:
        try:
            data0, _ = write_wb(arg(), False, sep, kind, tmp, tag + "u", na_rep)
            grid0 = value_grid(data0)
        except Exception as e:  # noqa: BLE001
            grid0 = None
            if oracle:
                out.fail("write_excel without styles raised", brief, type(e).__name__, None, key="write_raises_unstyled")
        if grid0 is not None and grid0 != grid and not grids_equal(grid0, grid) and oracle:
            out.fail("the value grid of the workbook differs with and without styles", brief,
                     first_grid_diff(grid0, grid), "identical cell values", key="styles_change_values")

    # ---- path versus binary stream: the saved cell values are the same
    if oracle:
        other = "bytes" if kind == "path" else "path"
        try:
            data2, _ = write_wb(arg(), styles, sep, other, tmp, tag + "o", na_rep)
            if not grids_equal(value_grid(data2), grid):
                out.fail("the workbook written to a path differs from the one written to a binary stream", brief,
                         first_grid_diff(value_grid(data2), grid), "identical cell values", key="path_vs_stream")
        except Exception as e:  # noqa: BLE001
            out.fail("write_excel raised for the other kind of target", brief, other + ": " + type(e).__name__, None,
                     key="write_raises_other_target")
        out.count("path-vs-stream comparisons")

    # ---- read back
    if kind == "path":
        source = os.path.join(tmp, tag + ".xlsx")
    else:
        source = io.BytesIO(data)
    names = [s["name"] for s in sheets]
    flags = case.get("pattern_flags")
    matching = names if pattern is None else [n for n in names if compile_pattern(pattern, flags).match(n)]
    impl_read, tabs = read_back(source, pattern, origin_mode, case.get("pattern_flags"))
    if kind != "path":
        source = io.BytesIO(data)
    impl_sheets = sheets_via_pdtable(source)

    # ---- oracle: the C09 statement
    if oracle:
        expected = [(s["name"], canon_expected_table(t)) for s in sheets if s["name"] in matching for t in s["tables"]]
        if impl_read["ending"] != "exhausted":
            out.fail("read_excel failed on a workbook written from well-formed tables", brief, impl_read["ending"],
                     "all tables", key="read_fails")
        elif len(tabs) != len(expected):
            out.fail("number / selection of tables read back differs", brief,
                     [(s, t["name"]) for s, t in tabs], [(s, t["name"]) for s, t in expected], key="table_count")
        else:
            for (es, et), (gs, gt) in zip(expected, tabs):
                if es != gs:
                    out.fail("origin sheet of a table is not the sheet it was written to", brief, gs, es, key="origin_sheet")
                    break
                d = same_table(et, gt)
                if d:
                    out.fail("table read back differs from the table written", brief, d, et["name"],
                             key="table_differs:" + d.split(":")[0].split(" ")[0])
                    break
        if [n for n, _ in grid] != names:
            out.fail("sheets of the workbook are not the written ones in order", brief, [n for n, _ in grid], names,
                     key="sheet_order")

    # ---- correspondence
    if model_ok:
        ext = rc.ext_tables([r for _, rows in impl_sheets for r in rows])
        ops.append({"op": "grid_write_read", "sheets": mt, "sep": sep, "naRep": na_rep, "styles": bool(styles),
                    "match": None if pattern is None else matching, "ext": ext, "fixer": rc.FIXERS["strict"]})
        sigs = style_signatures(data) if styles else None
        pend.append(("write_read", brief, {
            "appended": [(n, appended.get(n, [])) for n in names], "sheets": impl_sheets, "grid": grid,
            "read": impl_read, "sigs": sigs, "styles": styles,
            "rects": {sh["name"]: table_row_ranges(sh, sep) for sh in sheets}}))
        for s, m in zip(sheets, mt):
            ops.append({"op": "grid_layout", "tables": m["tables"], "sep": sep, "naRep": na_rep})
            pend.append(("layout", brief, {"appended": appended.get(s["name"], []),
                                           "stored": dict(impl_sheets).get(s["name"]),
                                           "rects": table_row_ranges(s, sep),
                                           "dims": [[len(t.df), len(t.df.columns), bool(t.metadata.transposed)]
                                                    for t in real[s["name"]]]}))
            ops.append({"op": "grid_store", "rows": common.grid_to_json(appended.get(s["name"], []))})
            pend.append(("store", brief, {"stored": dict(impl_sheets).get(s["name"]),
                                          "recorded": bool(appended.get(s["name"])) or not s["tables"]}))


def grids_equal(a, b):
    return common_json(a) == common_json(b)


def common_json(g):
    return [(n, common.grid_to_json(rows)) for n, rows in g]


def first_grid_diff(a, b):
    for (n1, r1), (n2, r2) in zip(a, b):
        if n1 != n2:
            return f"sheet {n1!r} vs {n2!r}"
        if len(r1) != len(r2):
            return f"sheet {n1!r}: {len(r1)} rows vs {len(r2)}"
        for i, (x, y) in enumerate(zip(r1, r2)):
            if common.grid_to_json([x]) != common.grid_to_json([y]):
                return f"sheet {n1!r} row {i}: {x!r} vs {y!r}"
    return f"{len(a)} sheets vs {len(b)}"


def judge(what, case, impl, ans, out):
    if isinstance(ans, dict) and "error" in ans:
        out.mismatch("driver error (" + what + ")", case, None, ans)
        return
    if what == "write_exc":
        if ans != impl:
            out.mismatch("write_excel raised but the model writes (or raises something else)", case, impl,
                         {k: ans[k] for k in ans if k == "exc"} or "a workbook")
        return
    if what == "layout":
        rows = common.grid_to_json(impl["appended"])
        if impl["appended"] and ans["rows"] != rows:
            # the call protocol to openpyxl is not part of C09: information only (the saved grid decides)
            out.count("info: rows handed to ws.append differ literally from Grid.layoutSheet")
        st = canon_dest_cells(strip_blank_tail(common.grid_to_json(impl["stored"] or [])), impl["rects"])
        if canon_dest_cells(strip_blank_tail(ans["stored"]), impl["rects"]) != st:
            out.mismatch("read_sheets rows vs Grid.store (Grid.layoutSheet …)", case, st, ans["stored"])
        if ans["dims"] != impl["dims"]:
            out.mismatch("table dimensions vs Grid.dimOf", case, impl["dims"], ans["dims"])
        return
    if what == "store":
        if not impl["recorded"]:
            out.count("info: nothing recorded through ws.append (another write protocol): openpyxl law not sampled")
            return
        st = common.grid_to_json(impl["stored"] or [])
        if ans != st:
            # what the recorder saw of ws.append is evidence only (a writer may fill cells another way and still append
            # its blank rows): the saved grid is judged against Grid.store (Grid.layoutSheet …) in "layout"
            out.count("info: Grid.store of the recorded ws.append rows differs from the saved grid (other write protocol)")
        else:
            out.count("openpyxl law sampled on recorded rows: agrees")
        return
    if what == "write_read":
        if "exc" in ans:
            out.mismatch("the model's write_excel raises, the implementation does not", case, "a workbook", ans)
            return
        m_sheets = [(s["name"], canon_dest_cells(strip_blank_tail(s["rows"]), impl["rects"].get(s["name"], [])))
                    for s in ans["sheets"]]
        i_sheets = [(n, canon_dest_cells(strip_blank_tail(common.grid_to_json(rows)), impl["rects"].get(n, [])))
                    for n, rows in impl["sheets"]]
        if m_sheets != i_sheets:
            out.mismatch("workbook value grid vs Grid.writeExcel", case, i_sheets, m_sheets)
        if common_json(impl["grid"]) != [(n, common.grid_to_json(rows)) for n, rows in impl["sheets"]]:
            out.mismatch("read_sheets differs from openpyxl's own value grid", case, i_sheets, common_json(impl["grid"]))
        mr = canon_model_read(ans["read"])
        if mr != impl["read"]:
            # BLANK blocks (separator rows) are no content of C09: judge the other blocks and the ending
            def no_blank(r):
                return {"blocks": [b for b in r["blocks"] if b["ty"] != "BLANK"], "ending": r["ending"]}
            if no_blank(mr) != no_blank(impl["read"]):
                out.mismatch("blocks of read_excel vs Grid.readExcel", case, impl["read"], mr)
            else:
                out.count("info: BLANK blocks differ from Grid.readExcel (separator rows)")
        if impl["styles"]:
            for s in ans["sheets"]:
                sig, wid = impl["sigs"].get(s["name"], ({}, []))
                # what style_touches_no_value states: every styled cell lies in the rows of a table, inside the sheet
                rects = impl["rects"].get(s["name"], [])
                width = max((len(r) for r in s["rows"]), default=0)
                stray = sorted((r, c) for (r, c) in sig
                               if not any(lo <= r < hi for lo, hi in rects) or c >= width or r >= len(s["rows"]))
                if stray:
                    out.mismatch("a styled cell lies outside the rows of every table / outside the sheet", case,
                                 {"sheet": s["name"], "cells": stray[:8], "table_rows": rects}, "inside")
                if expected_signatures(s["styled"], impl["styles"]) != sig:
                    out.count("info: styled cells differ from Grid.styleTargets (styling design)")
                if s["widened"] != wid:
                    out.count("info: widened columns differ from Grid.widenedColumns")
        return


def canon_dest_cells(rows, rects):
    """the destinations cell of every table (second row of its block, first cell) as sorted tokens: destinations are a
    set, the order in which they are joined is not part of C09"""
    rows = [list(r) for r in rows]
    for lo, _hi in rects:
        if lo + 1 < len(rows) and rows[lo + 1] and isinstance(rows[lo + 1][0], str):
            rows[lo + 1][0] = " ".join(sorted(rows[lo + 1][0].split(" ")))
    return rows


def strip_blank_tail(rows):
    """rows without the all-empty rows at the end (a separator row holding an empty cell is not a difference)"""
    rows = list(rows)
    while rows and all(c is None for c in rows[-1]):
        rows.pop()
    return rows


def table_row_ranges(sheet, sep):
    """[lo, hi) sheet rows of each table: header, destinations, then names+units+rows or one line per column"""
    out, i = [], 0
    for t in sheet["tables"]:
        n_rows = len(t["columns"][0]["values"]) if t["columns"] else 0
        h = 2 + (len(t["columns"]) if t["transposed"] else 2 + n_rows)
        out.append((i, i + h))
        i += h + sep
    return out


# --------------------------------------------------------------------------- run / replay

def run(tier, seed, model_ok, translator, search=False):
    out = Outcome()
    out.rule = ("random sheet maps (1-3 sheets, 0-3 Excel-well-formed tables each: text/onoff/datetime/float/int "
                "columns, 0-4 columns, 0-5 rows, both orientations, NaN/NaT, unicode; 30% of the tables with >= 2 columns are "
                "built in another column order, consulted once and re-arranged in place on t.df before writing; a quarter of "
                "the later column names / second table names are case or normal-form variants of an earlier one; 30% of "
                "the non-empty frames carry non-default row labels: shifted, reversed, permuted, strings, duplicates) x argument form {list, tuple, generator, iterator, map, bare "
                "Table; per sheet or as the whole argument} x styles {False, True, 4 custom "
                "dicts} x sep_lines 1..3 x {path, BytesIO} x sheet_name_pattern; real write_excel -> read_excel; "
                "non-trivial = at least one table with a column; distinct by sheet map and settings")
    rng = make_rng(seed, "C09")
    thorough = tier == "thorough"
    n_cases = (1000 if thorough else 90) if not search else 500
    tmp = tempfile.mkdtemp(prefix="c09-")
    ops, pend = [], []
    try:
        # fixed shapes first: every branch of the style arithmetic and of the reader
        for i, case in enumerate(fixed_cases(seed)):
            out.case(dict(case, sheets="(fixed shape %d)" % i), nontrivial=True)
            run_case(case, out, tmp, model_ok, ops, pend)
        for case in ladder_cases(seed, thorough) if not search else []:
            out.evaluations += 1
            out.nontrivial.add(hash(case["index"]))
            out.count("size ladder:" + case["index"].split(":")[1])
            run_case(case, out, tmp, model_ok, ops, pend)
            shutil.rmtree(tmp, ignore_errors=True)
            os.makedirs(tmp, exist_ok=True)
        for i in range(n_cases):
            sheets = gen_sheets(rng)
            st = rng.choice(["False", "True", "True", "custom:0", "custom:0", "custom:1", "custom:2", "custom:3"])
            case = {"seed": seed, "index": i, "sheets": sheets, "styles": st, "sep": rng.choice([1, 1, 2, 3, 4, 6]),
                    "target": rng.choice(["path", "bytes"]), "pattern": rng.choice(PATTERNS),
                    "pattern_flags": rng.choice([None, None, "I"]),
                    "na_rep": rng.choice(["-", "-", "-", "nan", "NaN", " - ", "NAN", "-"]),
                    "origin_mode": rng.choice([None, None, "origin", "location_file"])}
            out.count("na_rep:" + repr(case["na_rep"]))
            out.count("read_excel origin:" + str(case["origin_mode"]))
            tabs = [t for s in sheets for t in s["tables"]]
            nontrivial = any(t["columns"] for t in tabs)
            if i < 2:
                out.case(case, nontrivial=nontrivial)
            else:
                out.evaluations += 1
                if nontrivial:
                    out.nontrivial.add(hash(repr(case)))
            out.count("styles:" + st)
            out.count("sep:%d" % case["sep"])
            out.count("target:" + case["target"])
            out.count("pattern:" + ("none" if case["pattern"] is None else "regex"))
            out.count("sheets:%d" % len(sheets))
            for t in tabs:
                if t.get("row_labels"):
                    out.count("row labels of the backing frame:" + t["row_labels"])
                if t.get("built_order"):
                    out.count("history: built, consulted, columns re-arranged in place, then written")
                out.count("orientation:" + ("transposed" if t["transposed"] else "rowwise"))
                out.count("shape:cols=%d" % len(t["columns"]))
                out.count("shape:rows=%d" % (len(t["columns"][0]["values"]) if t["columns"] else 0))
                for c in t["columns"]:
                    out.count("kind:" + c["kind"])
            if not sheet_names_ok([s["name"] for s in sheets]):
                out.mismatch("generator produced sheet names outside sheetNamesOK", case, [s["name"] for s in sheets], None)
            for s in sheets:
                out.count("argument form:" + ("whole:" if s.get("whole") else "") + s.get("form", "list"))
                out.count("tables_per_sheet:%d" % len(s["tables"]))
                for t in s["tables"]:
                    if not py_wf(t):
                        out.mismatch("generator produced a table outside the well-formedness predicate", case, t["name"], None)
            run_case(case, out, tmp, model_ok, ops, pend)
            shutil.rmtree(tmp, ignore_errors=True)
            os.makedirs(tmp, exist_ok=True)

        # well-formedness predicate: python vs Lean, on generated (positive) and hand-made negative tables
        wf_specs = []
        for _, case, _ in [p for p in pend if p[0] == "write_read"][:40]:
            for s in case["sheets"]:
                for t in s["tables"]:
                    wf_specs.append((py_wf(t), t))
        lost = 0
        for what, spec in NEGATIVE:
            if what.startswith("row-wise table with 18279") and not thorough:
                continue                  # building that frame takes seconds: thorough tier only
            wf_specs.append((py_wf(spec), spec))
            if py_wf(spec):
                out.mismatch("negative example accepted by the python predicate", what, True, False)
            ncase = {"seed": seed, "index": "neg:" + what, "sheets": [{"name": "S", "tables": [spec]}], "styles": "False",
                     "sep": 1, "target": "bytes", "pattern": None}
            probe = Outcome()
            # outside the domain of the openpyxl law (rounded by the file format): no model comparison
            in_law = what not in OUT_OF_LAW
            try:
                run_case(ncase, probe, tmp, model_ok and in_law, ops, pend, oracle=True)
            except Exception as e:  # noqa: BLE001 — e.g. openpyxl refusing a value: the table is lost as well
                probe.failures.append({"what": type(e).__name__})
            lost += 1 if probe.failures else 0
            out.evaluations += 1
        # sheet names outside `sheetNamesOK`: what the real code does with them
        name_lists = [[s["name"] for s in c["sheets"]] for w, c, _i in pend if w == "write_read"][:60]
        for what, names, expect in NEGATIVE_SHEETS:
            name_lists.append(names)
            if sheet_names_ok(names):
                out.mismatch("negative sheet-name example accepted by the python predicate", what, True, False)
            tabs = {n: [build_table(_T1)] for n in names}
            try:
                data, _ = write_wb(tabs, False, 1, "bytes", tmp, "negsheet")
                got = [n for n, _ in value_grid(data)]
            except Exception as e:  # noqa: BLE001
                got = type(e).__name__
            out.evaluations += 1
            out.count("negative sheet names: " + what + " -> " + (got if isinstance(got, str) else "/".join(got)))
            if got != expect:
                out.notes.append(f"sheet-name negative '{what}': openpyxl now answers {got!r}, expected {expect!r}")
            if got == names:
                out.notes.append(f"sheet-name negative '{what}' round-trips: the clause may be idle")
        name_lists += SHEET_NAME_PROBES
        out.count("negative examples (one violated clause each)", len(NEGATIVE))
        out.count("negative examples the real round trip loses or alters", lost)
        if model_ok:
            for ok, spec in wf_specs:
                ops.append({"op": "grid_wf", "table": model_table(build_table(spec)), "naRep": "-"})
                pend.append(("wf", {"table": spec}, ok))
            for names in name_lists:
                ops.append({"op": "grid_sheet_names", "names": names})
                pend.append(("sheet_names", {"names": names}, sheet_names_ok(names)))
            answers = common.run_model(ops)
            for (what, case, impl), ans in zip(pend, answers):
                if what == "wf":
                    if isinstance(ans, dict) and "error" in ans:
                        out.mismatch("driver error (wf)", case, impl, ans)
                    elif ans["wf"] != impl or not ans["naRepOK"] or (impl and not ans["representable"]):
                        out.mismatch("well-formedness predicate: python vs Grid.excelWF / cellRepresentable", case, impl, ans)
                elif what == "sheet_names":
                    if isinstance(ans, dict) and "error" in ans or ans.get("ok") != impl:
                        out.mismatch("sheet-name predicate: python vs Grid.sheetNamesOK", case, impl, ans)
                else:
                    judge(what, case, impl, ans, out)
    finally:
        shutil.rmtree(tmp, ignore_errors=True)
    return out


def fixed_cases(seed):
    """shapes the style arithmetic and the reader distinguish: zero rows / zero columns / transposed, first / last"""
    def col(name, kind, unit, vals):
        return {"name": name, "unit": unit, "kind": kind, "values": vals}

    def tab(name, tr, cols):
        return {"name": name, "destinations": ["all"], "transposed": tr, "columns": cols}
    z = tab("z", False, [])
    zt = tab("zt", True, [])
    r0 = tab("r0", False, [col("a", "num", "m", []), col("b", "text", "text", [])])
    t0 = tab("t0", True, [col("a", "num", "m", []), col("b", "text", "text", [])])
    r = tab("r", False, [col("a", "text", "text", ["x", "y z"]), col("b", "num", "-", ["1.0", "nan"]),
                         col("c", "onoff", "onoff", [True, False]),
                         col("d", "datetime", "datetime", ["2020-01-02T03:04:05", None]), col("e", "int", "kg", [3, -4])])
    t = dict(r, name="t", transposed=True)
    t1 = tab("t1", True, [col("only", "num", "mm", ["2.5"])])
    rh = dict(r, name="rh", built_order=[4, 0, 1, 2, 3])      # built in another column order, re-arranged in place
    th = dict(t, name="th", built_order=[1, 0, 3, 2, 4])
    # first-column text with a colon in the middle: no marker, the block must not end there
    rcol = tab("rc", False, [col("what", "text", "text", ["plain", "ratio a:b", "12:30", "C:\\data", "x: y", "last"]),
                             col("v", "num", "m", ["1.0", "2.0", "3.0", "4.0", "5.0", "6.0"])])
    cv = tab("Case", False, [col("Mass", "text", "text", ["a", "b"]), col("mass", "num", "kg", ["1.0", "2.0"]),
                             col("MASS", "num", "KG", ["3.0", "nan"]), col("é", "onoff", "onoff", [True, False]),
                             col("e\u0301", "num", "Kg", ["4.5", "5.5"])])
    cvt = dict(cv, name="case", transposed=True)
    lab = []
    for i, kind in enumerate(["shift", "reverse", "perm", "str", "dup"]):
        lt = tab("lab%d" % i, bool(i % 2), [col("k", "text", "text", ["a", "b", "c", "d"]),
                                             col("when", "datetime", "datetime", ["2020-01-04T00:00:00", None,
                                                                                  "2020-01-02T03:04:05", "1999-12-31T23:59:59"]),
                                             col("x", "num", "m", ["4.0", "3.0", "nan", "1.0"])])
        lt["row_labels"], lt["row_labels_seed"] = kind, i
        lt["columns"][1]["res"] = ["s", "ms", "us", "ns", "us"][i]
        lab.append(lt)
    # text that looks like a missing-value marker is text (every position, both orientations)
    mk = tab("markers", False, [col("first", "text", "text", ["-", "nan", "NaN", " - ", "NAN", "None", "x"]),
                                col("second", "text", "text", ["NaN", "-", "x", "nan", "-", " - ", "None"]),
                                col("v", "num", "m", ["1.0", "nan", "2.0", "nan", "3.0", "4.0", "5.0"])])
    mkt = dict(mk, name="markers_t", transposed=True)
    shapes = [[mk, mkt], lab[:3], lab[3:], [cv, cvt], [rcol], [rh], [th, rh], [z], [zt], [r0], [t0], [r], [t], [z, z], [zt, z], [z, zt], [r, z], [z, r], [t, z, t0, r0], [r0, t0, zt, r, t1],
              [t1], [t1, z], []]
    cases = []
    for i, tabs in enumerate(shapes):
        for st, sep in (("True", 1), ("custom:0", 2), ("False", 3)):
            if st == "False" and i % 3:
                continue
            cases.append({"seed": seed, "index": "fixed:%d:%s:%d" % (i, st, sep),
                          "sheets": [{"name": "S", "tables": tabs}, {"name": "Other", "tables": [r] if i % 2 else []}],
                          "styles": st, "sep": sep, "target": "bytes" if i % 2 else "path",
                          "pattern": None if i % 4 else "S"})
    # argument forms: the same tables as list / tuple / generator / iterator / map / bare Table, per sheet and as the
    # whole argument, styled and unstyled, to a path and to a stream
    k = 0
    for form in ("list", "tuple", "generator", "iter", "map", "bare"):
        for st in ("False", "True", "custom:0"):
            k += 1
            tabs2 = [r] if form == "bare" else [r, t1]
            cases.append({"seed": seed, "index": "form:%s:%s" % (form, st), "styles": st, "sep": 1 + k % 2,
                          "sheets": [{"name": "A", "tables": tabs2, "form": form},
                                     {"name": "B", "tables": [t1], "form": "list" if k % 2 else form}],
                          "target": "path" if k % 2 else "bytes", "pattern": None})
            cases.append({"seed": seed, "index": "whole:%s:%s" % (form, st), "styles": st, "sep": 1,
                          "sheets": [{"name": "Sheet1", "tables": tabs2, "form": form, "whole": True}],
                          "target": "bytes" if k % 2 else "path", "pattern": None})
    # sheet names around openpyxl's default sheet title: every requested name must come back as it was given
    for i, names in enumerate([["Sheet"], ["sheet"], ["SHEET", "Sheet1"], ["Sheet", "Sheet1", "Sheet11"],
                               ["Sheet1", "Sheet"], ["Sheet2", "sheet", "Sheet11"], ["Sheet11", "Sheet1", "SHEET"]]):
        for pat in (None, r"Sheet$", r"Sheet1", r"(?i)sheet$"):
            if pat is not None and (i + len(pat)) % 2:
                continue
            cases.append({"seed": seed, "index": "names:%d:%s" % (i, pat), "styles": "True" if i % 2 else "False",
                          "sheets": [{"name": n, "tables": [r if j % 2 == 0 else t1]} for j, n in enumerate(names)],
                          "sep": 1 + i % 3, "target": "bytes" if i % 2 else "path", "pattern": pat})
    return cases


ROW_LADDER_QUICK = [63, 129, 256, 1025, 4097, 8193]
ROW_LADDER = [60, 61, 62, 63, 64, 127, 128, 129, 255, 256, 257, 1000, 1023, 1024, 1025, 2047, 2048, 2049, 4095, 4096, 4097,
              8191, 8192, 8193, 20000]
COL_LADDER_QUICK = [64, 257]
COL_LADDER = [63, 64, 65, 127, 128, 129, 255, 256, 257, 1000, 1025]


def ladder_cases(seed, thorough):
    """a size ladder: tables with many rows / many columns, both orientations, followed by a small table in the same
    sheet (block offsets after a long block), styled and unstyled"""
    rng = make_rng(seed, "C09-ladder")
    small = {"name": "after", "destinations": ["all"], "transposed": False, "columns": [
        {"name": "k", "unit": "text", "kind": "text", "values": ["x", "y"]},
        {"name": "v", "unit": "m", "kind": "num", "values": ["1.0", "nan"]}]}
    cases = []
    for i, n in enumerate(ROW_LADDER if thorough else ROW_LADDER_QUICK):
        # a transposed table occupies n + 2 sheet columns: inside the domain only up to MAX_COLUMNS (beyond it
        # write_excel raises — negative stream); larger ladder steps are therefore row-wise
        transposed = (i % 3 == 1) and n + 2 <= MAX_COLUMNS
        base = datetime.datetime(1999, 12, 31, 23, 0, 0)
        cols = [{"name": "id", "unit": "text", "kind": "text",
                 "values": [("r%d" % j) if j % 97 else ("a:b %d \U0001F600" % j) for j in range(n)]},
                {"name": "x", "unit": "m", "kind": "num",
                 "values": [float_tok(j * 0.5) if j % 50 else "nan" for j in range(n)]},
                {"name": "when", "unit": "datetime", "kind": "datetime", "res": "us",
                 "values": [None if j % 41 == 7 else (base + datetime.timedelta(seconds=3601 * j)).isoformat()
                            for j in range(n)]}]
        if i % 2:
            cols = cols[:2] + [{"name": "n", "unit": "-", "kind": "int", "values": [j - 5 for j in range(n)]}]
        big = {"name": "rows%d" % n, "destinations": ["all"], "transposed": transposed, "columns": cols}
        cases.append({"seed": seed, "index": "ladder:rows:%d" % n, "styles": ["True", "False", "custom:0"][i % 3],
                      "sep": 1 + i % 2, "target": "bytes" if i % 2 else "path", "pattern": None,
                      "sheets": [{"name": "L", "tables": [big, small], "form": rng.choice(["list", "generator", "tuple"])}]})
    # at the limits of the format: cell text of exactly 32767 characters (value, column name, unit, table name + its
    # decoration), a transposed table filling all 18278 addressable columns
    full = "y" * MAX_CELL_CHARS
    for i, tr in enumerate((False, True)):
        lim = {"name": "n" * (MAX_CELL_CHARS - 3), "destinations": ["all"], "transposed": tr, "columns": [
            {"name": "k" * MAX_CELL_CHARS, "unit": "text", "kind": "text", "values": [full, "short", full[:-1]]},
            {"name": "v", "unit": "u" * MAX_CELL_CHARS, "kind": "num", "values": ["1.0", "nan", "2.5"]}]}
        cases.append({"seed": seed, "index": "ladder:cell-limit:%s" % tr, "styles": "True" if tr else "False", "sep": 1,
                      "target": "bytes" if tr else "path", "pattern": None,
                      "sheets": [{"name": "L", "tables": [lim, small], "form": "list"}]})
    widest = {"name": "widest", "destinations": ["all"], "transposed": True, "columns": [
        {"name": "a", "unit": "m", "kind": "num", "values": [float_tok(j * 0.25) for j in range(MAX_COLUMNS - 2)]}]}
    cases.append({"seed": seed, "index": "ladder:column-limit", "styles": "True" if thorough else "False", "sep": 1,
                  "target": "bytes", "pattern": None, "sheets": [{"name": "L", "tables": [widest, small], "form": "list"}]})
    for i, n in enumerate(COL_LADDER if thorough else COL_LADDER_QUICK):
        cols = [{"name": "c%d" % j, "unit": "m" if j % 2 else "text", "kind": "num" if j % 2 else "text",
                 "values": [float_tok(j + 0.25), "nan"] if j % 2 else ["t%d" % j, "u"]} for j in range(n)]
        wide = {"name": "cols%d" % n, "destinations": ["all"], "transposed": bool(i % 2), "columns": cols}
        cases.append({"seed": seed, "index": "ladder:cols:%d" % n, "styles": ["custom:0", "True", "False"][i % 3],
                      "sep": 1, "target": "path" if i % 2 else "bytes", "pattern": None,
                      "sheets": [{"name": "W", "tables": [wide, small], "form": "list"}]})
    return cases


def replay(rep):
    inp = rep.get("input") or {}
    if "sheets" not in inp or not isinstance(inp["sheets"], list):
        return False, "replay file has no input (no-failing-input-found): " + str(rep.get("broken"))[:300]
    out = Outcome()
    tmp = tempfile.mkdtemp(prefix="c09r-")
    try:
        case = dict(inp)
        case.setdefault("index", "r")
        run_case(case, out, tmp, False, [], [])
    finally:
        shutil.rmtree(tmp, ignore_errors=True)
    if out.failures:
        return False, out.failures[0]["what"] + ": " + str(out.failures[0]["observed"])[:200]
    return True, "property holds on this input"
