"""C20 — a TableBundle holds exactly the table blocks, in order, findable by name.

Correspondence: real `TableBundle` vs Lean `Bundle.ofBlocks` + accessors on the same abstract block list
(per block: is-TABLE flag, how the constructor can obtain its name, identity token).
Oracle: the C20 statement computed directly from the block list in Python.
"""
import collections
import itertools
import re
import warnings

from harness import common
from harness.common import Outcome, make_rng

EXTRA = {
    "assumptions": [
        "attribute access is only defined for names that are not attributes of the TableBundle class itself "
        "(`all`, `unique`, dunder and private names are looked up by Python before __getattr__ is consulted)",
        "a cell-grid table block must have at least two rows and a string first cell for its name to be extracted; "
        "other shapes make the constructor fail (NotImplementedError / unbound local), modelled as such",
    ],
    "explanation": "bundle_refines_spec / unique_spec / getitem_int_spec / getitem_int_out_of_range / len_eq_iter_length (Props/C20.lean) hold for every block list.",
}

NAMES = ["a", "b", "tab", "é_1", "x*", "T", "t", "name", "df", "_x", "cafe\u0301", "caf\u00e9"]
# names only a Table / a JsonData dict can carry (a cell grid's name ends at the first blank; an empty, a dotted, a long
# one): kept as they are
BLANK_NAMES = [" a", "a ", "a b", "\ta", "", "a.b", "n" * 40, "x" * 300]


def _pool():
    import pandas as pd
    from pdtable import Table
    pool = {}
    with warnings.catch_warnings():
        warnings.simplefilter("ignore")
        for n in NAMES + BLANK_NAMES:
            pool[n] = [Table(pd.DataFrame({"c": [1.0]}), name=n, units=["m"]),
                       Table(pd.DataFrame({"c": [1.0]}), name=n, units=["m"]),
                       Table(pd.DataFrame({"d": [1.0, 2.0], "e": ["x", "y"]}), name=n, units=["m", "text"])]
    return pool


def name_src(rep, obj, grid_regex):
    """How the constructor obtains the name, per representation (mirrors store.py:78-101 by shape only)."""
    if rep in ("table",):
        return {"name": obj.name}
    if rep == "json":
        return {"name": obj["name"]} if isinstance(obj, dict) and isinstance(obj.get("name"), str) else "fail"
    if rep == "grid":
        if isinstance(obj, list) and len(obj) > 1:
            if not obj[0]:
                return "noCell"
            c0 = obj[0][0]
            if not isinstance(c0, str):
                return "stale"
            m = re.search(grid_regex, c0)
            return {"name": m.group(1)} if m else "fail"
        return "fail"
    return "fail"


DF = 10000     # identity token of a block's `.df` object = token of the block + DF


def rep_of(obj):
    """how TableBundle.__init__'s hasattr / isinstance tests classify a block value (shape only, no name extraction)"""
    if hasattr(obj, "name"):
        return {"k": "named", "n": obj.name}
    if isinstance(obj, dict):
        return {"k": "dict", "n": obj.get("name") if isinstance(obj.get("name"), str) else None}
    if isinstance(obj, list):
        if len(obj) > 1:
            c0 = "nocell" if not obj[0] else ({"s": obj[0][0]} if isinstance(obj[0][0], str) else "notstr")
        else:
            c0 = "notstr"
        return {"k": "grid", "rows": len(obj), "c0": c0}
    return {"k": "opaque"}


def run(tier, seed, model_ok, translator, search=False):
    from pdtable import TableBundle, BlockType
    from pdtable.store import TableNameNotUniqueInBundleError
    out = Outcome()
    out.rule = ("random block sequences (0-12 blocks, every fiftieth case 17-700; 55% TABLE) over a pool of named tables x representations "
                "{Table, Table as_dataframe, jsondata dict, cellgrid list} plus malformed table blocks; every accessor "
                "queried for every pooled name, an absent name and every integer index in [-n-1, n]. Non-trivial: at "
                "least one TABLE block; distinct by (representation, block abstract form).")
    rng = make_rng(seed, "C20")
    pool = _pool()
    # the oracle's notion of a cell-grid table name is fixed here (the text after `**` up to the first blank),
    # independent of the source: a changed regex in store.py is a changed behaviour, not a changed spec
    grid_regex = r"^\s*\*\*(\S+)\s*"
    n_cases = 4000 if tier == "thorough" else 500
    ops, pend = [], []

    # grid-name extraction: regex vs Lean gridName
    alpha = ["*", " ", "a", "\t", "é", " "]
    gcases = ["".join(t) for L in range(0, 6 if tier == "thorough" else 5) for t in itertools.product(alpha, repeat=L)]
    for s in gcases:
        m = re.search(grid_regex, s)
        ops.append({"op": "grid_name", "s": s})
        pend.append(("grid_name", s, m.group(1) if m else None))
    out.count("grid_name_strings", len(gcases))

    for idx in range(n_cases):
        rep = rng.choice(["table", "df", "json", "grid", "mixed"])
        n = rng.choice([0, 1, 2, 3, 4, 5, 6, 8, 12]) if idx % 50 else rng.choice([17, 33, 64, 65, 130, 300, 700])
        blocks, abstract = [], []
        for i in range(n):
            is_table = rng.random() < 0.55
            r = rng.choice(["table", "json", "grid"]) if rep == "mixed" else ("table" if rep == "df" else rep)
            nm = rng.choice(NAMES[: rng.choice([2, 4, len(NAMES)])])
            if r != "grid" and rng.random() < 0.06:
                nm = rng.choice(BLANK_NAMES)
            bad = rng.random() < 0.04
            if r == "table":
                pk = rng.randrange(len(pool[nm]))
                obj = pool[nm][pk]
            elif r == "json":
                obj = {"name": nm, "columns": {}} if not bad else rng.choice([{"nam": nm}, {"name": 5}])
                if not bad and rng.random() < 0.1:
                    obj = collections.OrderedDict(obj)        # a dict subclass is a dict
            else:
                gn = nm + ("*" if rng.random() < 0.2 else "")
                obj = [["**" + gn, ""], ["all"]] if not bad else rng.choice(
                    [[["**" + gn]], [[5], ["all"]], [["x" + gn], ["all"]], [[" \t**" + gn + " tail"], ["all"]],
                     [[], ["all"]], [], [["**"], ["all"]], [["** " + gn], ["all"]]])
            bt = BlockType.TABLE if is_table else rng.choice(
                [BlockType.METADATA, BlockType.DIRECTIVE, BlockType.BLANK, BlockType.TEMPLATE_ROW])
            blocks.append((bt, obj))
            abstract.append({"t": is_table, "src": name_src(r, obj, grid_regex), "val": i, "rep": r,
                             "shape": rep_of(obj), "has_df": hasattr(obj, "df"), "bt": bt.name,
                             "obj": {"pool": [nm, pk]} if r == "table" else {"lit": obj}})
        as_df = rep == "df" or (rep == "mixed" and rng.random() < 0.3)
        case = {"seed": seed, "index": idx, "as_dataframe": as_df,
                "blocks": [{k: v for k, v in a.items()} for a in abstract]}
        out.count("rep:" + rep)

        qs, impl = evaluate(blocks, abstract, as_df, n, case, out)
        if model_ok:
            mqs = [{"q": "getitem", "idx": {"s": q["n"]}} if q["q"] == "getitem_str" else
                   (dict(q, idx="other") if q["q"] == "getitem" and isinstance(q["idx"], str) else q) for q in qs]
            ops.append({"op": "bundle_supplied", "as_df": as_df, "queries": mqs,
                        "blocks": [dict({"t": a["t"], "rep": a["shape"], "val": a["val"]},
                                        **({"df": a["val"] + DF} if a["has_df"] else {})) for a in abstract]})
            pend.append(("bundle", case, (impl, qs, any(x["t"] and x["src"] in ("stale", "fail", "noCell") for x in abstract))))

    if model_ok:
        for (what, case, impl), ans in zip(pend, common.run_model(ops)):
            if isinstance(ans, dict) and "error" in ans:
                out.mismatch("driver error", case, impl, ans)
            elif what == "bundle":
                impl, qs, out_of_domain = impl
                if isinstance(ans, list) and isinstance(impl, list) and len(ans) <= len(impl):
                    # an index that is neither a name nor a position: the model knows today's TypeError; any other
                    # answer of the code is outside the statement and not held against either side
                    for j, q in enumerate(qs):
                        if q["q"] == "getitem" and isinstance(q["idx"], str) and j < len(ans) \
                                and impl[j] != {"exc": "TypeError"}:
                            ans[j] = impl[j]
                            out.count("other_index_not_a_type_error")
                        if q["q"] == "getitem" and isinstance(q["idx"], dict) and "b" in q["idx"] and j < len(ans) \
                                and impl[j] == {"exc": "TypeError"}:
                            ans[j] = impl[j]          # a bool refused as a position: as good as the integer reading
                            out.count("bool_index_refused")
                if ans != impl:
                    if out_of_domain:
                        # a TABLE block whose name cannot be extracted (or a grid whose first cell is no text): the
                        # statement is about blocks that have a name; what the constructor does with the others is
                        # modelled as it is today, and a difference there is recorded, not reported
                        out.count("out_of_domain_block_handled_differently_than_modelled")
                    else:
                        out.mismatch("bundle: TableBundle vs Lean model", case, impl, ans)
            elif ans != impl:
                out.mismatch(f"{what}: TableBundle vs Lean model", case, impl, ans)
    return out


def queries_for(abstract):
    qs = [{"q": "len"}, {"q": "iter"}]
    for nm in NAMES + BLANK_NAMES + ["absent"]:
        for q in ("all", "contains", "unique", "getattr", "getitem_str"):
            qs.append({"q": q, "n": nm})
    ntab = sum(1 for a in abstract if a["t"])
    for i in range(-ntab - 1, ntab + 1):
        qs.append({"q": "getitem_int", "i": i})
    for ix in ({"b": True}, {"b": False}, "other:float", "other:none", "other:slice", {"s": NAMES[0]}, {"s": "absent"}):
        qs.append({"q": "getitem", "idx": ix})
    return qs


def evaluate(blocks, abstract, as_df, n, case, out, form=None):
    """build the real bundle from the blocks, ask every query, judge the answers against the statement"""
    from pdtable import TableBundle
    from pdtable.store import TableNameNotUniqueInBundleError
    qs = queries_for(abstract)
    impl = impl_run(TableBundle, TableNameNotUniqueInBundleError, blocks, as_df, qs, n, form)
    out.case(case, nontrivial=any(a["t"] for a in abstract))
    oracle(abstract, impl, qs, out, case)
    return qs, impl


def impl_run(TableBundle, NotUnique, blocks, as_df, qs, n, form=None):
    """Build the real bundle and answer the queries.  Objects are reported as identity tokens: block index i for the
    block value itself, i + DF for its `.df` (a value occurring in several blocks gets the indices in order)."""
    try:
        # the blocks come as a one-shot iterator, a generator, a list or a tuple; when frames are requested also as a
        # generator that builds a fresh, short-lived Table facade per block over the pooled frame (the frame stored
        # must be that block's own frame)
        if form is None:
            form = (n + len(qs)) % 5 if as_df else (n + len(qs)) % 4
        closed = []

        def gen():
            # like rows read from a file: the source is only readable until the caller closes it
            for x in blocks:
                if closed:
                    raise ValueError("I/O operation on closed source")
                yield x
        src = [iter(blocks), gen(), list(blocks), tuple(blocks),
               ((bt, _fresh(obj)) for bt, obj in blocks)][form]
        # the flag is passed by keyword or positionally (second parameter), alternating by block count
        b = TableBundle(src, as_dataframe=as_df) if n % 2 else TableBundle(src, as_df)
        # the bundle holds the blocks of the sequence it was built from: what the caller does with the sequence
        # afterwards (re-using the buffer, closing the source) is not the bundle's business
        closed.append(True)
        if form == 2:
            src.clear()
            src.extend((bt, obj) for bt, obj in reversed(blocks[: max(1, n // 2)]))
        order_ids = [id(x) for x in b]
    except Exception as e:  # noqa: BLE001 — the class is reported; model and oracle say which ones are expected
        return {"exc": type(e).__name__}
    remaining = {}
    for i in range(n):
        if blocks[i][0].name == "TABLE":
            obj = blocks[i][1]
            remaining.setdefault(id(obj), []).append(i)
            if hasattr(obj, "df"):
                remaining.setdefault(id(obj.df), []).append(i + DF)
    seq = []
    for x in b:
        lst = remaining.get(id(x), [])
        seq.append(lst.pop(0) if lst else -1)
    pos_of = {}
    for pos, x in enumerate(b):
        pos_of.setdefault(id(x), []).append(seq[pos])

    # what the public surface says about the bundle before any lookup (no private attribute is read)
    probe = NAMES + BLANK_NAMES + ["absent", "another absent name"]

    def public_state():
        return ([nm in b for nm in probe], len(b))
    keys_before = public_state()
    ans = []
    for q in qs:
        try:
            k = q["q"]
            if k == "len":
                ans.append(len(b))
            elif k == "iter":
                ans.append(list(seq))
            elif k == "all":
                ans.append(_idx_seq(b.all(q["n"]), pos_of))
            elif k == "contains":
                ans.append(q["n"] in b)
            elif k == "unique":
                ans.append(_one(b.unique(q["n"]), pos_of))
            elif k == "getitem_str":
                ans.append(_one(b[q["n"]], pos_of))
            elif k == "getattr":
                ans.append(_one(getattr(b, q["n"]), pos_of))
            elif k == "getitem_int":
                ans.append(_int_item(b, q["i"], seq, order_ids))
            elif k == "getitem":
                ix = q["idx"]
                if isinstance(ix, dict) and "s" in ix:
                    ans.append(_one(b[ix["s"]], pos_of))
                elif isinstance(ix, dict):
                    ans.append(_int_item(b, ix["b"], seq, order_ids))
                else:
                    # an index that is neither a name nor a position: the statement promises nothing (TypeError today;
                    # slices or numpy integers may be supported one day) — recorded, compared with the model only when
                    # it is the TypeError the model knows
                    b[{"other:float": 1.0, "other:none": None, "other:slice": slice(0, 1)}[ix]]
                    ans.append("OTHER-INDEX-ACCEPTED")
        except KeyError:
            ans.append({"exc": "KeyError"})
        except AttributeError:
            ans.append({"exc": "AttributeError"})
        except IndexError:
            ans.append({"exc": "IndexError"})
        except TypeError:
            ans.append({"exc": "TypeError"})
        except NotUnique:
            ans.append({"exc": "TableNameNotUniqueInBundleError"})
        except Exception as e:  # noqa: BLE001 — any other class is reported as such and judged by the oracle
            ans.append({"exc": type(e).__name__})
    # the list all() gives for an absent name is the caller's: filling it must not show up anywhere else
    try:
        mine = b.all("absent")
        mine.append("caller's own entry")
        leaked = b.all("another absent name") or TableBundle(iter([])).all("absent")
    except Exception:  # noqa: BLE001
        leaked = None
    # ... and the list all() gives for a PRESENT name is the caller's too: emptying or extending it leaves the
    # bundle's length, its iteration and later lookups as they were
    shared_present = None
    try:
        for nm in probe:
            if nm in b:
                n_before, uniq_before = len(b), _outcome(lambda: id(b.unique(nm)))
                got = b.all(nm)
                saved = list(got)
                got.append("caller's own entry")
                after_append = (len(b), _outcome(lambda: id(b.unique(nm))), len(b.all(nm)))
                del got[:]
                after_clear = (len(b), _outcome(lambda: id(b.unique(nm))), len(b.all(nm)))
                if after_append != (n_before, uniq_before, len(saved)) or after_clear != (n_before, uniq_before, len(saved)):
                    shared_present = nm
                    got[:] = saved      # put the library's list back as it was, so the other probes see the real state
                break
    except Exception:  # noqa: BLE001
        shared_present = None
    if public_state() != keys_before or [id(x) for x in b] != order_ids:
        ans.append("STATE-CHANGED-BY-LOOKUP")
    elif shared_present is not None:
        ans.append("ALL-RESULT-ALIASES-BUNDLE")
    elif leaked:
        ans.append("ALL-RESULT-SHARED")
    elif not _iterations_independent(b, order_ids):
        ans.append("ITERATIONS-INTERFERE")
    return ans


def _outcome(f):
    try:
        return f()
    except Exception as e:  # noqa: BLE001
        return type(e).__name__


def _fresh(obj):
    """a new Table facade over the same frame (Table(tdf).df is tdf); other representations as they are"""
    from pdtable import Table
    return Table(obj.df) if hasattr(obj, "df") else obj


def _iterations_independent(b, order_ids):
    """every iteration yields all tables in order, also when another one over the same bundle is in flight"""
    n = len(order_ids)
    outer, inner = [], []
    for x in b:
        outer.append(id(x))
        inner.append([id(y) for y in b])
    if outer != order_ids or any(i != order_ids for i in inner):
        return False
    if [(id(x), id(y)) for x, y in zip(b, b)] != [(i, i) for i in order_ids]:
        return False
    if n:
        it = iter(b)
        first = [id(next(it))]
        full = [id(x) for x in b]
        if full != order_ids or first + [id(x) for x in it] != order_ids:
            return False
    return True


def _int_item(b, i, seq, order_ids):
    x = b[i]
    # position-exact: the object returned must be the one the iteration yields at that position
    return seq[i] if id(x) == order_ids[i] else -1


def _idx_seq(objs, pos_of):
    """objects -> block indices, consuming duplicates in order"""
    used = {}
    res = []
    for x in objs:
        lst = pos_of.get(id(x), [-1])
        k = used.get(id(x), 0)
        res.append(lst[k] if k < len(lst) else -1)
        used[id(x)] = k + 1
    return res


def _one(x, pos_of):
    return pos_of.get(id(x), [-1])[0]


def oracle(abstract, impl, qs, out, case):
    """C20 evaluated from the block list alone (for block lists whose table names are all extractable)."""
    tabs = [a for a in abstract if a["t"]]
    if any(a["src"] in ("stale", "fail", "noCell") for a in tabs):
        return  # outside the statement's domain: construction fails or uses a stale name (modelled, compared)
    if isinstance(impl, dict):
        out.fail("constructor raised on extractable table blocks", case, impl, None, key="ctor")
        return
    if impl and impl[-1] == "STATE-CHANGED-BY-LOOKUP":
        out.fail("a lookup changed the bundle", case, impl, None, key="lookup_mutates")
        return
    if impl and impl[-1] == "ALL-RESULT-SHARED":
        out.fail("entries a caller put into the list all(absent name) returned show up in the result of another all() "
                 "call", case, impl, None, key="all_result_shared")
        return
    if impl and impl[-1] == "ALL-RESULT-ALIASES-BUNDLE":
        out.fail("changing the list all(name) returned changed the bundle (its length or what unique / all answer)",
                 case, impl, None, key="all_result_aliases_bundle")
        return
    if impl and impl[-1] == "ITERATIONS-INTERFERE":
        out.fail("an iteration over the bundle did not yield every table in input order while another iteration "
                 "was in progress", case, impl, None, key="iter_interfere")
        return
    # "as Tables, as table frames when requested, or as the alternative representation supplied"
    as_df = case["as_dataframe"]

    def tok(a):
        return a["val"] + DF if (as_df and a["has_df"]) else a["val"]
    order = [tok(a) for a in tabs]
    for q, a in zip(qs, impl):
        k = q["q"]
        qn = q.get("n") if k != "getitem" else (q["idx"].get("s") if isinstance(q["idx"], dict) else None)
        same = [tok(t) for t in tabs if qn is not None and t["src"]["name"] == qn]
        if k == "len":
            exp = len(order)
        elif k == "iter":
            exp = order
        elif k == "all":
            exp = same
        elif k == "contains":
            exp = bool(same)
        elif k in ("unique", "getitem_str", "getattr"):
            if len(same) == 1:
                exp = same[0]
            elif len(same) > 1:
                exp = {"exc": "TableNameNotUniqueInBundleError"}
            else:
                exp = {"exc": "AttributeError" if k == "getattr" else "KeyError"}
        elif k == "getitem_int":
            i = q["i"]
            exp = order[i] if -len(order) <= i < len(order) else {"exc": "IndexError"}
        elif k == "getitem":
            ix = q["idx"]
            if isinstance(ix, str):
                continue                         # neither a name nor a position: nothing is promised
            elif "s" in ix:
                exp = same[0] if len(same) == 1 else {"exc": "TableNameNotUniqueInBundleError" if same else "KeyError"}
            else:
                # a bool used as a position: True / False are the integers 1 / 0 today; refusing them would be as good
                # (the statement speaks of integer positions): either the table at that position or a TypeError
                i = int(ix["b"])
                exp = order[i] if i < len(order) else {"exc": "IndexError"}
                if a == {"exc": "TypeError"}:
                    continue
        if a != exp:
            out.fail(f"accessor {k} disagrees with the table blocks in input order", dict(case, query=q), a, exp,
                     key="accessor:" + k)
            return


def replay(rep):
    """the case carries what is needed to rebuild its blocks (pooled table by name and position, literal dict / grid
    values); every form of block source is tried"""
    from pdtable import BlockType
    inp = rep.get("input") or {}
    if "blocks" not in inp or any("obj" not in a for a in inp["blocks"]):
        return False, "replay file has no input (no-failing-input-found): " + str(rep.get("broken"))[:300]
    pool = _pool()
    abstract = inp["blocks"]
    blocks = []
    for a in abstract:
        o = a["obj"]
        obj = pool[o["pool"][0]][o["pool"][1]] if "pool" in o else o["lit"]
        blocks.append((BlockType[a.get("bt", "TABLE" if a["t"] else "METADATA")], obj))
    as_df = bool(inp.get("as_dataframe"))
    # a failure may need an earlier bundle in the same process (state left behind in the class): an empty bundle is
    # asked for every name first, through every accessor
    from pdtable import TableBundle
    try:
        e = TableBundle(iter([]))
        for nm in NAMES + BLANK_NAMES + ["absent"]:
            for f in (lambda: getattr(e, nm), lambda: e[nm], lambda: e.unique(nm), lambda: e.all(nm), lambda: nm in e,
                      lambda: hasattr(e, nm)):
                try:
                    f()
                except Exception:  # noqa: BLE001
                    pass
    except Exception:  # noqa: BLE001 — the warm-up judges nothing
        pass
    for form in range(5 if as_df else 4):
        o = Outcome()
        evaluate(blocks, abstract, as_df, len(blocks), dict(inp), o, form)
        if o.failures:
            return False, o.failures[0]["what"]
    return True, "property holds on this input"


def shrink(inp, fails, budget_s):
    """fewer blocks with the same verdict (identity tokens renumbered by position)"""
    def mk(bl):
        return dict(inp, blocks=[dict(a, val=i) for i, a in enumerate(bl)])
    return mk(common.ddmin(inp["blocks"], lambda c: fails(mk(c)), budget_s))
