"""Tie 1 — the translator.  Parses the *current* /repo source with `ast` (no import of pdtable)
and regenerates lean/PdtModel/Gen/Consts.lean: the literal tables and constants the Lean model is
parameterised by.  `Props/*.lean` restate these as literals, so a changed constant breaks a proof.

Also computes a normalised-AST fingerprint of every anchored function (reported in evidence).
"""
import ast
import hashlib
import json
from pathlib import Path

FALLBACK = Path(__file__).resolve().parent / "extract_fallback.json"


def lean_str(s: str) -> str:
    out = []
    for ch in s:
        o = ord(ch)
        if ch == "\\":
            out.append("\\\\")
        elif ch == '"':
            out.append('\\"')
        elif ch == "\n":
            out.append("\\n")
        elif ch == "\t":
            out.append("\\t")
        elif 32 <= o < 127:
            out.append(ch)
        else:
            out.append("\\u{%x}" % o)
    return '"' + "".join(out) + '"'


def lean_strlist(xs) -> str:
    return "[" + ", ".join(lean_str(x) + ".toList" for x in xs) + "]"


def _parse(repo: Path, rel: str):
    return ast.parse((repo / rel).read_text())


def _find_assign(tree, name):
    """all module-level `name = <value>` value nodes"""
    out = []
    for node in tree.body:
        if isinstance(node, ast.Assign):
            for t in node.targets:
                if isinstance(t, ast.Name) and t.id == name:
                    out.append(node.value)
    return out


def _find_func(tree, name):
    for node in ast.walk(tree):
        if isinstance(node, (ast.FunctionDef, ast.AsyncFunctionDef)) and node.name == name:
            return node
    raise KeyError(name)


def _str_consts(node):
    return [n.value for n in ast.walk(node) if isinstance(n, ast.Constant) and isinstance(n.value, str)]


def _collection_of_str(node):
    """Set / List / Tuple literal of string constants (also frozenset({...}))"""
    if isinstance(node, ast.Call) and node.args:
        node = node.args[0]
    if not isinstance(node, (ast.Set, ast.List, ast.Tuple)):
        raise ValueError("not a literal collection")
    vals = []
    for e in node.elts:
        if not (isinstance(e, ast.Constant) and isinstance(e.value, str)):
            raise ValueError("non-string element")
        vals.append(e.value)
    return vals


# ------------------------------------------------------------------ items

def item_marker_pattern(repo):
    tree = _parse(repo, "pdtable/io/parsers/blocks.py")
    vals = _find_assign(tree, "_re_block_marker")
    pats = []
    for v in vals:
        if not (isinstance(v, ast.Call) and v.args):
            raise ValueError("unexpected _re_block_marker shape")
        arg = v.args[0]
        pats.append(ast.literal_eval(arg))
        if len(v.args) > 1 or v.keywords:
            raise ValueError("regex flags present")
    if not pats:
        raise ValueError("no _re_block_marker")
    return pats[-1]       # the definition in force when parse_blocks_stable runs


def _in_sets_of_func(tree, fname):
    """string collections used as right operand of `in` inside function fname"""
    f = _find_func(tree, fname)
    out = []
    for n in ast.walk(f):
        if isinstance(n, ast.Compare) and len(n.ops) == 1 and isinstance(n.ops[0], ast.In):
            try:
                out.append(_collection_of_str(n.comparators[0]))
            except ValueError:
                pass
    return out


def item_missing_markers(repo):
    tree = _parse(repo, "pdtable/io/parsers/columns.py")
    res = {}
    res["is_missing_data_marker"] = sorted(_in_sets_of_func(tree, "is_missing_data_marker")[0])
    res["float_convert"] = sorted(_in_sets_of_func(tree, "_float_convert")[0])
    # since the D7 fix the datetime parser calls is_missing_data_marker; record whether it still does
    res["datetime_uses_is_missing_data_marker"] = [
        fn for fn in ("_to_datetime", "_parse_datetime_column")
        if any(isinstance(n, ast.Call) and ast.unparse(n.func) == "is_missing_data_marker"
               for n in ast.walk(_find_func(tree, fn)))]
    res["datetime_local_sets"] = [sorted(x) for fn in ("_to_datetime", "_parse_datetime_column")
                                  for x in _in_sets_of_func(tree, fn)]
    return res


def item_onoff(repo):
    tree = _parse(repo, "pdtable/io/parsers/columns.py")
    f = _find_func(tree, "_onoff_to_bool")
    for n in ast.walk(f):
        if isinstance(n, ast.Dict):
            d = []
            for k, v in zip(n.keys, n.values):
                kk = ast.literal_eval(k)
                vv = ast.literal_eval(v)
                # a lookup table: 0 / False and 1 / True are ONE key each (equal and equally hashed), the order of
                # the entries means nothing, a key spelled twice means nothing
                d.append(["int", str(int(kk)), bool(vv)] if isinstance(kk, (bool, int)) else
                         [type(kk).__name__, str(kk), bool(vv)])
            return sorted([list(x) for x in {tuple(e) for e in d}])
    raise ValueError("no dict")


def item_fixer_defaults(repo):
    tree = _parse(repo, "pdtable/io/parsers/fixer.py")
    f = _find_func(tree, "fix_illegal_cell_value")
    for n in ast.walk(f):
        if isinstance(n, ast.Dict):
            # a dict literal: only the key -> value pairs matter, so they are sorted by key (re-ordering the entries
            # in the source does not change the translated constant)
            return sorted([ast.literal_eval(k), ast.unparse(v)] for k, v in zip(n.keys, n.values))
    raise ValueError("no dict")


def item_unit_from_dtype_kind(repo):
    tree = _parse(repo, "pdtable/table_metadata.py")
    d = ast.literal_eval(_find_assign(tree, "_unit_from_dtype_kind")[-1])
    # a dict literal: only the key -> value pairs matter (keys are unique), so the pairs are sorted by key and
    # re-grouping the entries in the source does not change the translated constant
    return [[k, v] for k, v in sorted(d.items())]


def item_units_special(repo):
    tree = _parse(repo, "pdtable/table_metadata.py")
    return sorted(ast.literal_eval(_find_assign(tree, "_units_special")[-1]))


def item_inconvertible(repo):
    tree = _parse(repo, "pdtable/proxy.py")
    # only membership matters (`unit in INCONVERTIBLE_UNIT_INDICATORS`): sorted, so that re-ordering the literal or
    # turning it into a set / tuple does not change the translated constant
    return sorted(ast.literal_eval(_find_assign(tree, "INCONVERTIBLE_UNIT_INDICATORS")[-1]))


def item_safe_methods(repo):
    tree = _parse(repo, "pdtable/frame.py")
    f = _find_func(tree, "_combine_tables")
    for n in ast.walk(f):
        if isinstance(n, ast.Call) and isinstance(n.func, ast.Name) and n.func.id == "frozenset":
            return sorted(_collection_of_str(n))
    raise ValueError("no frozenset")


def item_csv_sep(repo):
    tree = _parse(repo, "pdtable/__init__.py")
    return ast.literal_eval(_find_assign(tree, "CSV_SEP")[-1])


def item_na_rep(repo):
    tree = _parse(repo, "pdtable/io/_represent.py")
    f = _find_func(tree, "_represent_row_elements")
    names = [a.arg for a in f.args.args]
    defaults = f.args.defaults
    off = len(names) - len(defaults)
    na = ast.literal_eval(defaults[names.index("na_rep") - off])
    # sealant: the constant yielded in the `val == "" and col == 0` branch
    sealant = None
    for n in ast.walk(f):
        if isinstance(n, ast.If) and "col == 0" in ast.unparse(n.test):
            for y in ast.walk(n.body[0]):
                if isinstance(y, ast.Yield):
                    sealant = ast.literal_eval(y.value)
    if sealant is None:
        raise ValueError("sealant not found")
    test = [n for n in ast.walk(f) if isinstance(n, ast.If) and "col == 0" in ast.unparse(n.test)][0].test
    # the test as a conjunction: its conjuncts sorted (their order, and the side a constant stands on, mean nothing)
    parts = test.values if isinstance(test, ast.BoolOp) and isinstance(test.op, ast.And) else [test]

    def canon(e):
        if isinstance(e, ast.Compare) and len(e.ops) == 1 and isinstance(e.ops[0], ast.Eq) \
                and isinstance(e.left, ast.Constant) and not isinstance(e.comparators[0], ast.Constant):
            e = ast.Compare(left=e.comparators[0], ops=e.ops, comparators=[e.left])
        return ast.unparse(e)
    return {"na_rep": na, "sealant": sealant, "sealant_test": " and ".join(sorted(canon(e) for e in parts))}


def item_bundle_name_regex(repo):
    tree = _parse(repo, "pdtable/store.py")
    for n in ast.walk(tree):
        if isinstance(n, ast.Call) and ast.unparse(n.func) == "re.search":
            return ast.literal_eval(n.args[0])
    raise ValueError("no re.search")


def item_loader_consts(repo):
    tree = _parse(repo, "pdtable/io/load/_loaders.py")
    out = {}
    for name in ("_LEADING_SLASH",):
        v = _find_assign(tree, name)
        out[name] = ast.unparse(v[-1]) if v else None
    # FileSystemLoader dataclass field default: `ignore_protocol: str = "file:"` (C17)
    for node in ast.walk(tree):
        if isinstance(node, ast.ClassDef) and node.name == "FileSystemLoader":
            for st in node.body:
                if (isinstance(st, ast.AnnAssign) and isinstance(st.target, ast.Name)
                        and st.target.id == "ignore_protocol"):
                    out["ignore_protocol"] = ast.literal_eval(st.value)
    if not isinstance(out.get("ignore_protocol"), str) or out["_LEADING_SLASH"] is None:
        raise ValueError("loader constants not found")
    return out


def item_include_directive(repo):
    """IncludeReader.read: the directive name compared with `value.name`; make_loader: the key under which the
    file-system loader is registered in the ProtocolLoader and the default protocol (C16)"""
    tree = _parse(repo, "pdtable/io/load/_loaders.py")
    name = None
    for node in ast.walk(tree):
        if isinstance(node, ast.ClassDef) and node.name == "IncludeReader":
            for cmp in ast.walk(node):
                if (isinstance(cmp, ast.Compare) and ast.unparse(cmp.left) == "value.name"
                        and len(cmp.ops) == 1 and isinstance(cmp.ops[0], ast.Eq)):
                    name = ast.literal_eval(cmp.comparators[0])
    default = file_key = None
    for n in ast.walk(_find_func(tree, "make_loader")):
        if isinstance(n, ast.Call) and ast.unparse(n.func) == "ProtocolLoader":
            for kw in n.keywords:
                if kw.arg == "default_protocol":
                    default = ast.literal_eval(kw.value)
                if kw.arg == "protocol_handlers" and isinstance(kw.value, ast.Dict) and kw.value.keys[0] is not None:
                    file_key = ast.literal_eval(kw.value.keys[0])
    if not (isinstance(name, str) and isinstance(default, str) and isinstance(file_key, str)):
        raise ValueError("include directive name / protocol defaults not found")
    return {"name": name, "default_protocol": default, "file_key": file_key}


# C19 — with-frame table of the reader / writer functions
_C19_FUNCS = [
    ("pdtable/io/csv.py", None, "read_csv"),
    ("pdtable/io/csv.py", None, "write_csv"),
    ("pdtable/io/excel.py", None, "read_excel"),
    ("pdtable/io/excel.py", None, "write_excel"),
    ("pdtable/io/_excel_openpyxl.py", None, "read_sheets"),
    ("pdtable/io/_excel_openpyxl.py", None, "write_excel_openpyxl"),
    ("pdtable/io/_excel_xlsxwriter.py", None, "write_excel_xlsxwriter"),
    ("pdtable/io/load/_loaders.py", "FileReader", "read"),
    ("pdtable/io/load/_loaders.py", "IncludeReader", "read"),
    ("pdtable/io/load/_orchestrators.py", None, "queued_load"),
    ("pdtable/io/load/_orchestrators.py", None, "load_files"),
]
_C19_OPENERS = {"open", "load_workbook", "ZipFile", "fdopen", "TemporaryFile", "NamedTemporaryFile",
                 "SpooledTemporaryFile", "mkstemp", "FileIO", "openpty", "dup"}
_C19_WRITE_CALLS = {"_table_to_csv", "_append_table_to_openpyxl_worksheet", "_append_table_to_xlsxwriter_worksheet",
                    "save", "write", "write_excel_func"}
# constructors that create the target file although they are not called `open` (dotted name as written)
_C19_OPENERS_DOTTED = {"xlsxwriter.Workbook"}


def _c19_callee(call):
    f = call.func
    return f.attr if isinstance(f, ast.Attribute) else (f.id if isinstance(f, ast.Name) else ast.unparse(f))


def _c19_names(fn):
    """(names that stand for something the caller supplied: parameters and their plain aliases, other names bound
    inside the function) — nested defs / classes / lambdas excluded"""
    a = fn.args
    params = {x.arg for x in a.posonlyargs + a.args + a.kwonlyargs}
    if a.vararg:
        params.add(a.vararg.arg)
    if a.kwarg:
        params.add(a.kwarg.arg)
    bound = set()

    def walk(node):
        for ch in ast.iter_child_nodes(node):
            if isinstance(ch, (ast.FunctionDef, ast.AsyncFunctionDef, ast.ClassDef, ast.Lambda)):
                continue
            if isinstance(ch, ast.Name) and isinstance(ch.ctx, ast.Store):
                bound.add(ch.id)
            walk(ch)
    walk(fn)
    bound -= params
    # alias resolution: a local all of whose bindings are (possibly conditional) copies of ONE parameter is that
    # parameter as far as provenance goes: `x = p`, `x = p if c else None`, `x = Path(p) if c else None`,
    # `x, y = (p, None) if c else (None, p)`.  Anything else (for / with targets, other values) stays <local>.
    _CONVERTERS = {"Path", "PurePath", "str", "fspath", "os.fspath", "pathlib.Path"}
    sources = {}          # local -> set of parameters it was copied from, or None when bound in any other way

    def origin(v):
        """the parameter a value copies, "" for None, None for anything else"""
        if isinstance(v, ast.Constant) and v.value is None:
            return ""
        if isinstance(v, ast.Name) and v.id in params:
            return v.id
        if (isinstance(v, ast.Call) and ast.unparse(v.func) in _CONVERTERS and len(v.args) == 1 and not v.keywords):
            return origin(v.args[0]) or None
        if isinstance(v, ast.IfExp):
            a, b = origin(v.body), origin(v.orelse)
            if a is None or b is None or (a and b and a != b):
                return None
            return a or b
        return None

    def bind(target, value):
        if isinstance(target, ast.Name):
            if target.id in params:
                return
            o = origin(value) if value is not None else None
            if o is None or sources.get(target.id, set()) is None:
                sources[target.id] = None
            elif o:
                sources.setdefault(target.id, set()).add(o)
            else:
                sources.setdefault(target.id, set())
        elif isinstance(target, (ast.Tuple, ast.List)):
            def elems(v):
                if isinstance(v, (ast.Tuple, ast.List)) and len(v.elts) == len(target.elts):
                    return [[e] for e in v.elts]
                if isinstance(v, ast.IfExp):
                    x, y = elems(v.body), elems(v.orelse)
                    return [a + b for a, b in zip(x, y)] if x and y else None
                return None
            cols = elems(value) if value is not None else None
            for i, t in enumerate(target.elts):
                if cols is None:
                    bind(t, None)
                else:
                    for v in cols[i]:
                        bind(t, v)

    assigned = set()

    def scan(node):
        for ch in ast.iter_child_nodes(node):
            if isinstance(ch, (ast.FunctionDef, ast.AsyncFunctionDef, ast.ClassDef, ast.Lambda)):
                continue
            if isinstance(ch, ast.Assign):
                for t in ch.targets:
                    bind(t, ch.value)
                    assigned.update(n for n in ast.walk(t) if isinstance(n, ast.Name))
            elif isinstance(ch, ast.AnnAssign) and ch.value is not None:
                bind(ch.target, ch.value)
                assigned.update(n for n in ast.walk(ch.target) if isinstance(n, ast.Name))
            scan(ch)
    scan(fn)
    # every other binding occurrence (for / with / except targets, walrus, augmented assignment, del) disqualifies
    for n in ast.walk(fn):
        if isinstance(n, ast.Name) and isinstance(n.ctx, (ast.Store, ast.Del)) and n not in assigned and n.id in sources:
            sources[n.id] = None
    aliases = {x for x, src in sources.items() if src is not None and len(src) == 1}
    return params | aliases, bound - aliases


def _c19_helper_returns(fn):
    """the returned expressions of a helper whose body is nothing but (a docstring and) `return <expr>` statements,
    possibly under `if`s; None when the function does anything else"""
    rets = []

    def ok(body):
        for i, st in enumerate(body):
            if (isinstance(st, ast.Expr) and isinstance(st.value, ast.Constant) and isinstance(st.value.value, str)):
                continue
            if isinstance(st, (ast.Import, ast.ImportFrom)):
                continue
            if isinstance(st, ast.Return) and st.value is not None:
                rets.append(st.value)
            elif isinstance(st, ast.If):
                if not (ok(st.body) and ok(st.orelse)):
                    return False
            else:
                return False
        return True
    return rets if ok(fn.body) and rets else None


def _c19_norm(node, cls, helpers, depth=0):
    """canonical text of a context-manager / opener / callee expression: callee names, and for every positional
    argument only what it is — `<param>` (supplied by the caller of the function), `<local>` (bound inside it), a
    nested call, or `_`.  Keyword arguments, literal arguments (file modes) and the tests of conditional expressions
    are dropped; the alternatives of a conditional expression are sorted.  A call of a module-private helper whose
    body only returns such expressions is replaced by what the helper returns (one level).  Renaming variables,
    adding `encoding=…`, or moving `open(...) if … else nullcontext(...)` into a helper does not change the text."""
    def norm(n):
        return _c19_norm(n, cls, helpers, depth)
    if isinstance(node, ast.IfExp):
        alts = sorted({norm(node.body), norm(node.orelse)})
        return alts[0] if len(alts) == 1 else "either(" + ", ".join(alts) + ")"
    if isinstance(node, ast.Name):
        return cls(node.id)
    if isinstance(node, ast.Attribute):
        return norm(node.value) + "." + node.attr
    if isinstance(node, ast.Call):
        f = node.func
        if isinstance(f, ast.Name) and depth == 0 and f.id in helpers:
            h = helpers[f.id]
            rets = _c19_helper_returns(h)
            if rets is not None:
                names = [a.arg for a in h.args.posonlyargs + h.args.args]
                amap = {nm: norm(arg) for nm, arg in zip(names, node.args)}
                amap.update({kw.arg: norm(kw.value) for kw in node.keywords if kw.arg})
                alts = sorted({_c19_norm(r, lambda nm: amap.get(nm, nm), helpers, 1) for r in rets})
                return alts[0] if len(alts) == 1 else "either(" + ", ".join(alts) + ")"
        args = [norm(a) for a in node.args if not isinstance(a, (ast.Constant, ast.Starred))]
        return norm(f) + "(" + ", ".join(args) + ")"
    return "_"


def _c19_scan(fn, helpers=None):
    """(points, bare_opens, for_calls, close_calls) of one function body; nested defs/classes/lambdas skipped.
    points: (what, [normalised context expressions of the enclosing `with` items, outermost first]).
    Only yields, yield-froms, opener calls, close calls, the callee names of write / save calls and the enclosing
    with-items enter the table; other statements and the arguments of calls do not.  A with-item that is rooted
    at a local variable and is neither an opener nor `closing(...)` (e.g. `buffer.getbuffer()`) is left out."""
    points, bare, fors, closes = [], [], [], []
    params, bound = _c19_names(fn)
    helpers = helpers or {}

    def own_nodes(node):
        for ch in ast.iter_child_nodes(node):
            if isinstance(ch, (ast.FunctionDef, ast.AsyncFunctionDef, ast.ClassDef, ast.Lambda)):
                continue
            yield ch
            yield from own_nodes(ch)

    def is_opener_call(n):
        return isinstance(n, ast.Call) and (_c19_callee(n) in _C19_OPENERS or ast.unparse(n.func) in _C19_OPENERS_DOTTED)

    # a local that is assigned exactly once, from an expression that opens something (`wb = load_workbook(f)`), stands
    # for that expression where it is used as / inside a with-item (`with closing(wb):` = `with closing(load_workbook(f)):`)
    stores = {}
    for n in own_nodes(fn):
        if isinstance(n, ast.Name) and isinstance(n.ctx, ast.Store):
            stores[n.id] = stores.get(n.id, 0) + 1
    defs = {}
    for n in own_nodes(fn):
        if (isinstance(n, ast.Assign) and len(n.targets) == 1 and isinstance(n.targets[0], ast.Name)
                and stores.get(n.targets[0].id) == 1 and n.targets[0].id in bound
                and any(is_opener_call(c) for c in ast.walk(n.value)) and not isinstance(n.value, ast.IfExp)):
            defs[n.targets[0].id] = n.value
    # names used inside a with-item / an ExitStack.enter_context argument: their defining opener is managed there
    managed = set()
    for n in own_nodes(fn):
        items = []
        if isinstance(n, (ast.With, ast.AsyncWith)):
            items = [it.context_expr for it in n.items]
        elif isinstance(n, ast.Call) and isinstance(n.func, ast.Attribute) and n.func.attr == "enter_context":
            items = list(n.args)
        for e in items:
            managed.update(x.id for x in ast.walk(e) if isinstance(x, ast.Name) and x.id in defs)
    managed_calls = {id(c) for nm in managed for c in ast.walk(defs[nm]) if isinstance(c, ast.Call)}

    def cls(name):
        if name in managed:
            return _c19_norm(defs[name], cls_plain, helpers)
        return cls_plain(name)

    def cls_plain(name):
        return "<param>" if name in params else "<local>" if name in bound else name

    def txt(node):
        return _c19_norm(node, cls, helpers)

    def expr(node, ctx, in_item):
        # walk an expression tree in source order
        if isinstance(node, (ast.Lambda, ast.FunctionDef, ast.AsyncFunctionDef, ast.ClassDef)):
            return
        if isinstance(node, ast.YieldFrom):
            v = node.value
            points.append(["yield from " + (txt(v.func) if isinstance(v, ast.Call) else txt(v)), list(ctx)])
        elif isinstance(node, ast.Yield):
            points.append(["yield", list(ctx)])
        elif isinstance(node, ast.Call):
            name = _c19_callee(node)
            if is_opener_call(node) and not in_item and id(node) not in managed_calls:
                bare.append(txt(node))
            if name == "close" and isinstance(node.func, ast.Attribute):
                closes.append(txt(node.func) + "()")
            if name in ("write_bytes", "write_text") and isinstance(node.func, ast.Attribute):
                # `Path(p).write_bytes(b)` opens, writes and closes inside the one call: the same as
                # `with open(p, 'wb') as f: f.write(b)`
                recv = node.func.value
                while (isinstance(recv, ast.Call) and ast.unparse(recv.func) in ("Path", "pathlib.Path", "PurePath")
                       and len(recv.args) == 1):
                    recv = recv.args[0]
                points.append(["call <local>.write", list(ctx) + ["open(" + txt(recv) + ")"]])
            elif name in _C19_WRITE_CALLS:
                points.append(["call " + txt(node.func), list(ctx)])
        for ch in ast.iter_child_nodes(node):
            expr(ch, ctx, in_item)

    def has_opener(node):
        return any(isinstance(n, ast.Call) and (_c19_callee(n) in _C19_OPENERS
                                                or ast.unparse(n.func) in _C19_OPENERS_DOTTED) for n in ast.walk(node))

    def try_finally_frame(st, nxt):
        """`x = <opener expression>` immediately followed by `try: … finally: x.close()` (the close optionally under
        an `if`) is the hand-written spelling of `with <expression> as x:`.  Returns the frame text or None.
        With a conditional close, an alternative of the expression that is a plain variable is what `nullcontext`
        does (handed through, not closed); with an unconditional close it is closed: `closing(...)`."""
        if not (isinstance(st, ast.Assign) and len(st.targets) == 1 and isinstance(st.targets[0], ast.Name)
                and isinstance(nxt, ast.Try) and nxt.finalbody and has_opener(st.value)):
            return None
        x = st.targets[0].id
        fin = nxt.finalbody
        conditional = False
        if len(fin) == 1 and isinstance(fin[0], ast.If) and not fin[0].orelse:
            conditional, fin = True, fin[0].body
        if not (len(fin) == 1 and isinstance(fin[0], ast.Expr) and isinstance(fin[0].value, ast.Call)
                and isinstance(fin[0].value.func, ast.Attribute) and fin[0].value.func.attr == "close"
                and isinstance(fin[0].value.func.value, ast.Name) and fin[0].value.func.value.id == x
                and not fin[0].value.args):
            return None
        wrap = "nullcontext" if conditional else "closing"

        def alt(v):
            return wrap + "(" + txt(v) + ")" if isinstance(v, ast.Name) else txt(v)
        v = st.value
        if isinstance(v, ast.IfExp):
            alts = sorted({alt(v.body), alt(v.orelse)})
            return alts[0] if len(alts) == 1 else "either(" + ", ".join(alts) + ")"
        return alt(v)

    def plain_try_close(st):
        """`try: … finally: x.close()` for a variable x that was not opened just before: `with closing(x): …`"""
        if not (isinstance(st, ast.Try) and len(st.finalbody) == 1 and isinstance(st.finalbody[0], ast.Expr)):
            return None
        c = st.finalbody[0].value
        if (isinstance(c, ast.Call) and isinstance(c.func, ast.Attribute) and c.func.attr == "close" and not c.args
                and isinstance(c.func.value, ast.Name)):
            return "closing(" + txt(c.func.value) + ")"
        return None

    def entered(st, stack_vars):
        """the frame a statement enters through `<ExitStack>.enter_context(E)`: E, or for
        `x = v if c else st.enter_context(E)` the alternatives nullcontext(v) / E"""
        def is_enter(n):
            return (isinstance(n, ast.Call) and isinstance(n.func, ast.Attribute) and n.func.attr == "enter_context"
                    and isinstance(n.func.value, ast.Name) and n.func.value.id in stack_vars and len(n.args) == 1)
        v = st.value if isinstance(st, (ast.Assign, ast.Expr, ast.AnnAssign)) else None
        if v is None:
            return None
        if is_enter(v):
            return txt(v.args[0])
        if isinstance(v, ast.IfExp):
            alts = []
            for br in (v.body, v.orelse):
                if is_enter(br):
                    alts.append(txt(br.args[0]))
                elif isinstance(br, ast.Name):
                    alts.append("nullcontext(" + txt(br) + ")")
                else:
                    return None
            if any(is_enter(br) for br in (v.body, v.orelse)):
                alts = sorted(set(alts))
                return alts[0] if len(alts) == 1 else "either(" + ", ".join(alts) + ")"
        return None

    def stmts(body, ctx, stack_vars=frozenset()):
        skip = False
        ctx = list(ctx)
        for i, st in enumerate(body):
            if skip:
                skip = False
                continue
            if stack_vars:
                fr = entered(st, stack_vars)
                if fr is not None:
                    v = st.value
                    for n in ast.walk(v):
                        if isinstance(n, ast.Call) and isinstance(n.func, ast.Attribute) and n.func.attr == "enter_context":
                            for a in n.args:
                                expr(a, ctx, True)
                    ctx = ctx + [fr]          # in scope for the rest of the ExitStack body
                    continue
            pc = plain_try_close(st)
            if pc is not None and try_finally_frame(body[i - 1] if i else None, st) is None:
                inner = ctx + [pc]
                stmts(st.body, inner, stack_vars)
                for h in st.handlers:
                    stmts(h.body, inner, stack_vars)
                stmts(st.orelse, inner, stack_vars)
                continue
            frame = try_finally_frame(st, body[i + 1] if i + 1 < len(body) else None)
            if frame is not None:
                t = body[i + 1]
                inner = list(ctx) + [frame]
                stmts(t.body, inner, stack_vars)
                for h in t.handlers:
                    stmts(h.body, inner, stack_vars)
                stmts(t.orelse, inner, stack_vars)
                skip = True                      # the finally's close is the exit of that frame
                continue
            if isinstance(st, (ast.FunctionDef, ast.AsyncFunctionDef, ast.ClassDef)):
                continue
            if isinstance(st, (ast.With, ast.AsyncWith)):
                inner = list(ctx)
                sv = set(stack_vars)
                for it in st.items:
                    ce = it.context_expr
                    if (isinstance(ce, ast.Call) and _c19_callee(ce) == "ExitStack" and not ce.args
                            and isinstance(it.optional_vars, ast.Name)):
                        sv.add(it.optional_vars.id)      # frames are entered inside the body (enter_context)
                        continue
                    expr(ce, inner, True)
                    t = txt(ce)
                    if not t.startswith("<local>"):
                        inner = inner + [t]
                stmts(st.body, inner, frozenset(sv))
            elif isinstance(st, (ast.For, ast.AsyncFor)):
                if isinstance(st.iter, ast.Call):
                    fors.append(txt(st.iter.func))
                expr(st.iter, ctx, False)
                stmts(st.body, ctx, stack_vars)
                stmts(st.orelse, ctx, stack_vars)
            elif isinstance(st, ast.While):
                expr(st.test, ctx, False)
                stmts(st.body, ctx, stack_vars)
                stmts(st.orelse, ctx, stack_vars)
            elif isinstance(st, ast.If):
                expr(st.test, ctx, False)
                stmts(st.body, ctx, stack_vars)
                stmts(st.orelse, ctx, stack_vars)
            elif isinstance(st, ast.Try) or st.__class__.__name__ == "TryStar":
                stmts(st.body, ctx, stack_vars)
                for h in st.handlers:
                    stmts(h.body, ctx, stack_vars)
                stmts(st.orelse, ctx, stack_vars)
                stmts(st.finalbody, ctx, stack_vars)
            elif isinstance(st, ast.Match):
                expr(st.subject, ctx, False)
                for c in st.cases:
                    stmts(c.body, ctx, stack_vars)
            else:
                expr(st, ctx, False)

    stmts(fn.body, [])
    return points, bare, fors, closes


def item_with_frames(repo):
    out = []
    for rel, cls, name in _C19_FUNCS:
        tree = _parse(repo, rel)
        scope = tree
        if cls is not None:
            scope = next(n for n in tree.body if isinstance(n, ast.ClassDef) and n.name == cls)
        fn = next(n for n in scope.body if isinstance(n, (ast.FunctionDef, ast.AsyncFunctionDef)) and n.name == name)
        helpers = {n.name: n for n in tree.body
                   if isinstance(n, ast.FunctionDef) and n.name.startswith("_") and n is not fn}
        # ... and module-private helpers imported from another pdtable module (`from pdtable.io._x import _opened`)
        for n in tree.body:
            if isinstance(n, ast.ImportFrom) and n.module is not None:
                pkg = Path(rel).parent.parts
                base = list(pkg[: len(pkg) - (n.level - 1)]) if n.level else []
                mod = base + n.module.split(".")
                if mod[0] != "pdtable":
                    continue
                cand = Path(*mod).with_suffix(".py")
                if not (Path(repo) / cand).exists():
                    continue
                try:
                    other = _parse(repo, str(cand))
                except Exception:          # noqa
                    continue
                for a in n.names:
                    if a.name.startswith("_"):
                        for d in other.body:
                            if isinstance(d, ast.FunctionDef) and d.name == a.name:
                                helpers.setdefault(a.asname or a.name, d)
        points, bare, fors, closes = _c19_scan(fn, helpers)
        # the order of the entries carries no meaning for the model (points in exclusive branches, independent calls):
        # each list is sorted, so that re-ordering branches or statements does not change the table
        out.append([(cls + "." if cls else "") + name, sorted(points), sorted(bare), sorted(fors), sorted(closes)])
    return out


def _calls_in_order(fn, pred):
    """calls satisfying pred, in source order"""
    out = [n for n in ast.walk(fn) if isinstance(n, ast.Call) and pred(n)]
    return sorted(out, key=lambda n: (n.lineno, n.col_offset))


def _locals_of(fn):
    """names bound inside a function: parameters, assignment / loop / comprehension / with targets, lambda args"""
    names = set()
    for n in ast.walk(fn):
        if isinstance(n, ast.arg):
            names.add(n.arg)
        elif isinstance(n, ast.Name) and isinstance(n.ctx, (ast.Store, ast.Del)):
            names.add(n.id)
    return names


def _norm_text(node, local_names):
    """source text of a node with every locally bound name replaced by `_` (robust against renaming locals)"""
    import copy

    class R(ast.NodeTransformer):
        def visit_Name(self, n):
            return ast.copy_location(ast.Name(id="_", ctx=n.ctx), n) if n.id in local_names else n

        def visit_arg(self, n):
            n.arg = "_" if n.arg in local_names else n.arg
            return n
    return ast.unparse(R().visit(copy.deepcopy(node)))


def _guarded(fn, pred, local_names):
    """calls satisfying pred grouped by the `if` guards on their path; source order kept inside a group, the groups
    themselves sorted (robust against swapping the arms of an if/else)"""
    groups = {}

    def neg(t):
        return t[4:] if t.startswith("not ") else "not " + t

    def walk(stmts, guard):
        for st in stmts:
            if isinstance(st, ast.If):
                t = _norm_text(st.test, local_names)
                walk(st.body, guard + [t])
                walk(st.orelse, guard + [neg(t)])
                continue
            for c in _calls_in_order(st, pred) if not isinstance(st, (ast.For, ast.While, ast.With, ast.Try)) else []:
                groups.setdefault(" and ".join(sorted(guard)), []).append(_norm_text(c.args[0], local_names))
            for field in ("body", "orelse", "finalbody"):
                if isinstance(st, (ast.For, ast.While, ast.With, ast.Try)):
                    walk(getattr(st, field, []) or [], guard)
    walk(fn.body, [])
    return sorted(k + " => " + " | ".join(v) for k, v in groups.items())


def item_excel_layout(repo):
    """C09: the skeleton of the openpyxl writer / reader that the Grid model mirrors.  Source text via ast with
    locally bound names blanked (`_`), statement multisets sorted: renaming locals, reordering independent statements
    and swapping if/else arms leave the item unchanged."""
    tree = _parse(repo, "pdtable/io/_excel_openpyxl.py")
    helper = _parse(repo, "pdtable/io/_excel_write_helper.py")
    excel = _parse(repo, "pdtable/io/excel.py")
    # _append_table_to_openpyxl_worksheet: what is appended to the worksheet, per branch, in order
    app = _find_func(tree, "_append_table_to_openpyxl_worksheet")
    la = _locals_of(app)
    ws_param = app.args.args[1].arg
    appended = _guarded(app, lambda c: isinstance(c.func, ast.Attribute) and c.func.attr == "append"
                        and ast.unparse(c.func.value) == ws_param, la)
    # _style_tables_in_worksheet: integer constants and every assignment statement (the index arithmetic)
    st = _find_func(tree, "_style_tables_in_worksheet")
    ls = _locals_of(st)
    ints = sorted(n.value.value for n in ast.walk(st) if isinstance(n, ast.Assign)
                  and isinstance(n.value, ast.Constant) and type(n.value.value) is int)
    stmts = sorted(_norm_text(n, ls) for n in ast.walk(st) if isinstance(n, (ast.Assign, ast.AugAssign))
                   and not isinstance(n.value, ast.Constant))
    # the attributes assigned on a plain name anywhere in the module (the style loop's `cell.font = …`, wherever a
    # refactoring puts it: helper functions, cached style objects); any `.value` store in the module
    writes = sorted({t.attr for n in ast.walk(tree) if isinstance(n, (ast.Assign, ast.AugAssign, ast.AnnAssign))
                     for t in (n.targets if isinstance(n, ast.Assign) else [n.target])
                     if isinstance(t, ast.Attribute) and isinstance(t.value, ast.Name)})
    value_writes = sorted({_norm_text(t, set()) for n in ast.walk(tree)
                           if isinstance(n, (ast.Assign, ast.AugAssign, ast.AnnAssign))
                           for t in (n.targets if isinstance(n, ast.Assign) else [n.target])
                           if isinstance(t, ast.Attribute) and t.attr in ("value", "_value")})
    # read_sheets: what is iterated and what is yielded
    rs = _find_func(tree, "read_sheets")
    lr = _locals_of(rs)
    iters = [_norm_text(n.iter, lr) for n in ast.walk(rs) if isinstance(n, ast.For)]
    yields = [_norm_text(n.value, lr) for n in ast.walk(rs) if isinstance(n, ast.Yield)]
    # write_excel_openpyxl: the loop that creates the sheets
    wx = _find_func(tree, "write_excel_openpyxl")
    lw = _locals_of(wx)
    wloops = [_norm_text(n.iter, lw) for n in ast.walk(wx) if isinstance(n, ast.For)
              and any(isinstance(c, ast.Call) and isinstance(c.func, ast.Attribute) and c.func.attr == "create_sheet"
                      for c in ast.walk(n))]
    # helpers: header f-strings per branch and the destination join
    hd = _find_func(helper, "_table_header")
    lh = _locals_of(hd)
    headers = []

    def hwalk(stmts, guard):
        for x in stmts:
            if isinstance(x, ast.If):
                t = _norm_text(x.test, lh)
                hwalk(x.body, guard + [t])
                hwalk(x.orelse, guard + [t[4:] if t.startswith("not ") else "not " + t])
            elif isinstance(x, ast.Return):
                headers.append(" and ".join(sorted(guard)) + " => " + _norm_text(x.value, lh))
    hwalk(hd.body, [])
    dj = _find_func(helper, "_table_destinations")
    dest = [_norm_text(n.value, _locals_of(dj)) for n in ast.walk(dj) if isinstance(n, ast.Return)]
    # read_excel: how the sheet-name pattern is applied
    rx = _find_func(excel, "read_excel")
    nm = _find_func(rx, "name_matches")
    pattern_calls = [_norm_text(c, _locals_of(nm)) for c in _calls_in_order(
        nm, lambda c: isinstance(c.func, ast.Attribute) and ast.unparse(c.func.value) == "sheet_name_pattern")]
    return {"appended": appended, "ints": ints, "stmts": stmts, "style_writes": writes,
            "value_writes": value_writes, "read_iters": iters, "read_yields": yields, "write_loops": wloops,
            "headers": sorted(headers), "dest": dest, "pattern_calls": pattern_calls}


def item_table_handlers(repo):
    """C07: `TABLE_HANDLERS` of blocks.py — (output form, handler function) pairs, in source order — and the
    exception class `parse_blocks` raises for a key that is not among them"""
    tree = _parse(repo, "pdtable/io/parsers/blocks.py")
    (val,) = _find_assign(tree, "TABLE_HANDLERS")
    pairs = []
    if isinstance(val, ast.Dict):
        items = list(zip(val.keys, val.values))
    elif isinstance(val, (ast.Tuple, ast.List)):
        items = []
        for e in val.elts:
            if not (isinstance(e, (ast.Tuple, ast.List)) and len(e.elts) == 2):
                raise ValueError("TABLE_HANDLERS entry is not a pair")
            items.append((e.elts[0], e.elts[1]))
    else:
        raise ValueError("TABLE_HANDLERS is neither a literal tuple of pairs nor a dict literal")
    for k, v in items:
        if not (isinstance(k, ast.Constant) and isinstance(k.value, str)):
            raise ValueError("TABLE_HANDLERS key is not a str literal")
        pairs.append([k.value, ast.unparse(v)])
    fn = _find_func(tree, "parse_blocks")
    raised = None
    for node in ast.walk(fn):
        if isinstance(node, ast.Try):
            for h in node.handlers:
                if h.type is not None and ast.unparse(h.type) == "KeyError":
                    for st in h.body:
                        if isinstance(st, ast.Raise) and isinstance(st.exc, ast.Call):
                            raised = ast.unparse(st.exc.func)
    if raised is None:
        raise ValueError("parse_blocks: no `except KeyError: raise X(...)` around the handler lookup")
    return {"pairs": pairs, "unknown_raises": raised}


ITEMS = {
    "table_handlers": item_table_handlers,
    "marker_pattern": item_marker_pattern,
    "missing_markers": item_missing_markers,
    "onoff": item_onoff,
    "fixer_defaults": item_fixer_defaults,
    "unit_from_dtype_kind": item_unit_from_dtype_kind,
    "units_special": item_units_special,
    "inconvertible": item_inconvertible,
    "safe_methods": item_safe_methods,
    "csv_sep": item_csv_sep,
    "represent": item_na_rep,
    "bundle_name_regex": item_bundle_name_regex,
    "loader_consts": item_loader_consts,
    "include_directive": item_include_directive,
    "with_frames": item_with_frames,
    "excel_layout": item_excel_layout,
}

ANCHORED = {
    "pdtable/io/parsers/blocks.py": [
        "make_metadata_block", "make_directive", "make_fixer", "parse_column_names",
        "_get_destinations_safely_stripped", "make_table_json_precursor", "_make_table",
        "make_table_json_data", "_apply_filter", "parse_blocks", "parse_blocks_stable",
        "_fix_duplicate_column_names", "_is_cell_blank"],
    "pdtable/io/parsers/columns.py": [
        "normalize_if_str", "is_missing_data_marker", "_parse_text_column", "_onoff_to_bool",
        "_parse_onoff_column", "_float_convert", "_parse_float_column", "_to_datetime",
        "_parse_datetime_column", "parse_column"],
    "pdtable/io/parsers/fixer.py": [
        "reset_fixes", "fix_duplicate_column_name", "fix_missing_rows_in_column_data",
        "fix_illegal_cell_value", "report"],
    "pdtable/io/csv.py": ["read_csv", "write_csv", "_table_to_csv"],
    "pdtable/io/_represent.py": ["_represent_row_elements", "_represent_col_elements"],
    "pdtable/io/_json.py": ["to_json_serializable"],
    "pdtable/io/json.py": ["json_data_to_table", "table_to_json_data"],
    "pdtable/store.py": ["__init__", "__getattr__", "__getitem__", "__contains__", "__iter__",
                         "__len__", "unique", "all"],
    "pdtable/proxy.py": ["convert_units", "equals", "_equal_or_same", "_df_elements",
                         "_df_elements_all_equal_or_same", "__init__"],
    "pdtable/table_metadata.py": ["check_dtype", "_update_columns", "_check_dataframe",
                                  "unit_from_dtype", "update_from", "copy", "__post_init__"],
    "pdtable/frame.py": ["_combine_tables", "__finalize__", "from_table_info",
                         "make_table_dataframe", "get_table_info", "add_column", "set_units"],
    "pdtable/io/load/_orchestrators.py": ["queued_load", "load_files"],
    "pdtable/io/load/_loaders.py": ["_resolve_load_item_path", "make_loader", "read", "resolve"],
    "pdtable/io/load/_tree.py": ["make_location_trees"],
    "pdtable/table_origin.py": ["load_history", "make_location_block", "make_location_sheet"],
    "pdtable/io/excel.py": ["read_excel", "write_excel"],
    "pdtable/io/_excel_openpyxl.py": ["read_sheets", "write_excel_openpyxl",
                                      "_append_table_to_openpyxl_worksheet",
                                      "_style_tables_in_worksheet"],
}


def fingerprints(repo: Path):
    out = {}
    for rel, names in ANCHORED.items():
        try:
            tree = _parse(repo, rel)
        except Exception as e:     # noqa
            out[rel] = f"unparsable: {e}"
            continue
        found = {}
        for node in ast.walk(tree):
            if isinstance(node, (ast.FunctionDef, ast.AsyncFunctionDef)) and node.name in names:
                body = [n for n in node.body
                        if not (isinstance(n, ast.Expr) and isinstance(n.value, ast.Constant)
                                and isinstance(n.value.value, str))]
                dump = ast.dump(ast.Module(body=body, type_ignores=[]), include_attributes=False)
                key = f"{rel}:{node.name}@{node.lineno}"
                found[key] = hashlib.sha1(dump.encode()).hexdigest()[:12]
        out.update(found)
    return out


def render(vals) -> str:
    mm = vals["missing_markers"]
    L = []
    L.append("/- GENERATED by harness/extract.py from the current /repo source — do not edit. -/")
    L.append("namespace Pdt.Gen")
    L.append("")
    L.append("/-- blocks.py `_re_block_marker` pattern text (last definition) -/")
    L.append(f"def markerPattern : String := {lean_str(vals['marker_pattern'])}")
    L.append("")
    L.append("/-- columns.py missing-data marker spellings, one list per use site -/")
    L.append(f"def missingIsMarker : List (List Char) := {lean_strlist(mm['is_missing_data_marker'])}")
    L.append(f"def missingFloatConvert : List (List Char) := {lean_strlist(mm['float_convert'])}")
    L.append("/-- datetime parser functions that delegate the marker test to is_missing_data_marker -/")
    L.append("def datetimeMarkerDelegates : List String := [" + ", ".join(
        lean_str(x) for x in mm['datetime_uses_is_missing_data_marker']) + "]")
    L.append("/-- marker sets spelled locally in the datetime parser (none expected) -/")
    L.append("def datetimeLocalSets : List (List (List Char)) := [" + ", ".join(
        lean_strlist(x) for x in mm['datetime_local_sets']) + "]")
    L.append("")
    L.append("/-- columns.py `_onoff_to_bool.conversions`: (python type of key, str(key), value) -/")
    L.append("def onoffTable : List (String × String × Bool) := [" + ", ".join(
        f"({lean_str(t)}, {lean_str(k)}, {'true' if v else 'false'})" for t, k, v in vals["onoff"]) + "]")
    L.append("")
    L.append("/-- fixer.py `fix_illegal_cell_value.defaults`: (vtype, source text of the default) -/")
    L.append("def fixerDefaults : List (String × String) := [" + ", ".join(
        f"({lean_str(k)}, {lean_str(v)})" for k, v in vals["fixer_defaults"]) + "]")
    L.append("")
    L.append("/-- table_metadata.py `_unit_from_dtype_kind` -/")
    L.append("def unitFromDtypeKind : List (Char × List Char) := [" + ", ".join(
        f"('{k}', {lean_str(v)}.toList)" for k, v in vals["unit_from_dtype_kind"]) + "]")
    L.append(f"def unitsSpecial : List (List Char) := {lean_strlist(vals['units_special'])}")
    L.append("")
    L.append("/-- proxy.py `INCONVERTIBLE_UNIT_INDICATORS` -/")
    L.append(f"def inconvertibleUnits : List (List Char) := {lean_strlist(vals['inconvertible'])}")
    L.append("")
    L.append("/-- frame.py `_combine_tables`: methods whose single source is `other` -/")
    L.append(f"def safeMethods : List (List Char) := {lean_strlist(vals['safe_methods'])}")
    L.append("")
    L.append("/-- blocks.py `TABLE_HANDLERS`: (output form `to`, handler function); what an unknown `to` raises (C07) -/")
    L.append("def tableHandlers : List (String × String) := [" + ", ".join(
        f"({lean_str(k)}, {lean_str(v)})" for k, v in vals["table_handlers"]["pairs"]) + "]")
    L.append("/-- the keys alone, sorted: the set of output forms (what `formOf` and the pin theorem use) -/")
    L.append("def tableHandlerKeys : List (List Char) := [" + ", ".join(
        f"{lean_str(k)}.toList" for k in sorted(k for k, _ in vals["table_handlers"]["pairs"])) + "]")
    L.append(f"def unknownFormRaises : String := {lean_str(vals['table_handlers']['unknown_raises'])}")
    L.append("")
    L.append(f"def csvSep : List Char := {lean_str(vals['csv_sep'])}.toList")
    L.append(f"def naRepDefault : List Char := {lean_str(vals['represent']['na_rep'])}.toList")
    L.append(f"def sealant : List Char := {lean_str(vals['represent']['sealant'])}.toList")
    L.append(f"def sealantTest : String := {lean_str(vals['represent']['sealant_test'])}")
    L.append(f"def bundleNameRegex : String := {lean_str(vals['bundle_name_regex'])}")
    L.append("/-- _loaders.py `_LEADING_SLASH` (source text) and the `FileSystemLoader.ignore_protocol` default (C17) -/")
    L.append(f"def leadingSlashPattern : String := {lean_str(vals['loader_consts']['_LEADING_SLASH'])}")
    L.append(f"def ignoreProtocol : List Char := {lean_str(vals['loader_consts']['ignore_protocol'])}.toList")
    L.append("/-- _loaders.py IncludeReader: directive name that is consumed; make_loader: ProtocolLoader keys (C16) -/")
    L.append(f"def includeDirective : List Char := {lean_str(vals['include_directive']['name'])}.toList")
    L.append(f"def defaultProtocol : List Char := {lean_str(vals['include_directive']['default_protocol'])}.toList")
    L.append(f"def fileProtocolKey : List Char := {lean_str(vals['include_directive']['file_key'])}.toList")
    L.append("")
    L.append("/-- C19: per reader/writer function (name, points, opener calls outside any `with` item, calls iterated by a")
    L.append("    `for`, explicit `.close()` calls); a point is (yield / yield from f / call f, context expressions of the")
    L.append("    enclosing `with` items, outermost first) -/")
    L.append("def withFrames : List (String × List (String × List String) × List String × List String × List String) := [")
    L.append(",\n".join(
        "  (" + lean_str(fn) + ", [" + ", ".join(
            "(" + lean_str(w) + ", [" + ", ".join(lean_str(c) for c in ctx) + "])" for w, ctx in pts)
        + "], [" + ", ".join(lean_str(x) for x in bare) + "], [" + ", ".join(lean_str(x) for x in fors)
        + "], [" + ", ".join(lean_str(x) for x in closes) + "])"
        for fn, pts, bare, fors, closes in vals["with_frames"]) + "]")
    L.append("")
    ex = vals["excel_layout"]
    sl = lambda xs: "[" + ", ".join(lean_str(x) for x in xs) + "]"
    L.append("/-- C09: skeleton of the openpyxl writer / reader (normalised source text: local names blanked) -/")
    L.append(f"def excelAppended : List String := {sl(ex['appended'])}")
    L.append("def excelInts : List Nat := [" + ", ".join(str(int(v)) for v in ex["ints"]) + "]")
    L.append(f"def excelStyleStmts : List String := {sl(ex['stmts'])}")
    L.append(f"def excelStyleWrites : List String := {sl(ex['style_writes'])}")
    L.append(f"def excelValueWrites : List String := {sl(ex['value_writes'])}")
    L.append(f"def excelReadIters : List String := {sl(ex['read_iters'])}")
    L.append(f"def excelReadYields : List String := {sl(ex['read_yields'])}")
    L.append(f"def excelWriteLoops : List String := {sl(ex['write_loops'])}")
    L.append(f"def excelHeaders : List String := {sl(ex['headers'])}")
    L.append(f"def excelDest : List String := {sl(ex['dest'])}")
    L.append(f"def excelPatternCalls : List String := {sl(ex['pattern_calls'])}")
    L.append("")
    L.append("end Pdt.Gen")
    return "\n".join(L) + "\n"


def run(repo: Path, gen_dir: Path):
    """returns dict(status per item, fingerprints, changed: bool)"""
    fallback = json.loads(FALLBACK.read_text()) if FALLBACK.exists() else {}
    vals, status = {}, {}
    for name, fn in ITEMS.items():
        try:
            vals[name] = fn(repo)
            status[name] = "ok"
        except Exception as e:   # noqa — the source no longer has the expected shape
            if name in fallback:
                vals[name] = fallback[name]
                status[name] = f"fallback({type(e).__name__}: {e})"
            else:
                raise
    text = render(vals)
    gen_dir.mkdir(parents=True, exist_ok=True)
    target = gen_dir / "Consts.lean"
    changed = (not target.exists()) or target.read_text() != text
    if changed:
        target.write_text(text)
    diff = {k: {"now": vals[k], "committed": fallback.get(k)} for k in vals
            if k in fallback and json.loads(json.dumps(vals[k])) != fallback[k]}
    return {"status": status, "changed_file": changed, "values": vals,
            "differs_from_committed": diff, "fingerprints": fingerprints(repo)}


if __name__ == "__main__":
    import sys
    repo = Path(sys.argv[1] if len(sys.argv) > 1 else "/repo")
    res = run(repo, Path(__file__).resolve().parent.parent / "lean" / "PdtModel" / "Gen")
    if "--write-fallback" in sys.argv:
        FALLBACK.write_text(json.dumps(res["values"], indent=1, sort_keys=True) + "\n")
    print(json.dumps(res["status"], indent=1))
