"""Correspondence of the regex ENGINE model (lean/PdtModel/Model/Regex.lean) with CPython's `re`.

The two patterns pdtable dispatches on — the block-marker pattern of blocks.py and the table-name pattern of
store.py — are proved equal to the hand models `classify` / `gridName` *relative to the engine model*
(Props/Regex.lean: `classify_eq_regex`, `gridName_eq_regex`).  What remains to be tied to the code is the engine
model itself; this module samples it against CPython:

  (a) the live patterns (read from the imported module / the source file, never spelled here) on every string up to
      a length bound over a marker alphabet, plus random longer strings — all group spans compared;
  (b) random patterns drawn from the model's syntax subset x random strings, `match` and `search`, all spans.

`find_disagreement(pattern)` is the failing-input search used when the pattern text changed: the driver enumerates
strings on which the changed pattern (engine model + transcribed dispatch) and the hand model `classify` disagree;
the caller runs them through the real code and its oracle.
"""
import itertools
import re
import warnings

from harness import common

ALPHA_LIVE = ["*", ":", "a", " ", "\n", "\t", "é"]
ALPHA_RAND = ["a", "b", "c", "*", ":", " ", "\n", "\t", "é", "1", "_", " ", "٣"]


# ------------------------------------------------------------------ the live patterns

def live_marker_pattern():
    """pattern text of the compiled marker regex parse_blocks_stable uses (None: not observable)"""
    try:
        from pdtable.io.parsers import blocks
        pat = getattr(blocks, "_re_block_marker", None)
        if pat is not None and isinstance(pat.pattern, str) and pat.flags == re.compile("").flags:
            return pat.pattern
    except Exception:  # noqa: BLE001
        pass
    return None


def live_name_pattern():
    """first argument of the `re.search` call in store.py, read from the source text (None: not observable)"""
    try:
        from harness import extract
        v = extract.item_bundle_name_regex(common.REPO)
        return v if isinstance(v, str) else None
    except Exception:  # noqa: BLE001
        return None


# ------------------------------------------------------------------ CPython side

def py_spans(mm):
    if mm is None:
        return None
    return [None if mm.span(i) == (-1, -1) else list(mm.span(i)) for i in range(mm.re.groups + 1)]


def tables_for(strings):
    chars = sorted(set("".join(strings)))
    return ("".join(c for c in chars if c.isdecimal()),
            "".join(c for c in chars if c.isalnum() or c == "_"))


def py_compile(pattern):
    with warnings.catch_warnings():
        warnings.simplefilter("ignore")
        try:
            return re.compile(pattern)
        except (re.error, OverflowError, RecursionError):
            return None


# ------------------------------------------------------------------ random patterns from the subset grammar

SPECIAL = set(".\\[{()*+?^$|")
QUANTS = ["*", "+", "?", "{2}", "{1,2}", "{,2}", "{1,}", "{0}", "{,}", "*?", "+?", "??", "{1,2}?", "{2,}?"]
CLASSES = ["\\s", "\\S", "\\d", "\\D", "\\w", "\\W"]


def _lit(rng):
    c = rng.choice(ALPHA_RAND[:9] + ["1", "_", "-", "]", "}", "{"])
    if c == "\n" and rng.random() < 0.5:
        return "\\n"
    if c == "\t" and rng.random() < 0.5:
        return "\\t"
    if c in SPECIAL or (c in "-]}:" and rng.random() < 0.2):
        return "\\" + c
    return c


def _set(rng):
    items = []
    for _ in range(rng.randint(1, 3)):
        k = rng.random()
        if k < 0.45:
            c = rng.choice(["a", "b", "c", "*", ":", " ", "é", "1", "_", "^", ".", "$"])
            items.append(c)
        elif k < 0.6:
            lo, hi = sorted(rng.sample(["a", "b", "c", "1", "9", "z"], 2))
            items.append(lo + "-" + hi)
        elif k < 0.8:
            items.append(rng.choice(CLASSES))
        elif k < 0.9:
            items.append(rng.choice(["\\]", "\\\\", "\\-", "\\n", "\\*", "\\:"]))
        else:
            items.append(rng.choice(["-", "]"]) if not items else "-")
    body = "".join(items)
    if body.startswith("^"):
        body = "\\" + body
    return "[" + ("^" if rng.random() < 0.35 else "") + body + "]"


def _single(rng):
    k = rng.random()
    if k < 0.5:
        return _lit(rng)
    if k < 0.6:
        return "."
    if k < 0.8:
        return rng.choice(CLASSES)
    return _set(rng)


def _atom(rng, depth):
    k = rng.random()
    if depth <= 0 or k < 0.45:
        return _single(rng)
    if k < 0.65:
        return "(" + _alt(rng, depth - 1) + ")"
    if k < 0.75:
        return "(?:" + _alt(rng, depth - 1) + ")"
    if k < 0.82:
        return rng.choice(["(?=", "(?!"]) + _alt(rng, depth - 1) + ")"
    if k < 0.88:
        return rng.choice(["(?<=", "(?<!"]) + _single(rng) + ")"
    return rng.choice(["^", "$", "\\A", "\\Z", "$", "^"])


def _seq(rng, depth):
    out = []
    for _ in range(rng.choice([0, 1, 1, 2, 2, 3])):
        a = _atom(rng, depth)
        if rng.random() < (0.05 if a in ("^", "$", "\\A", "\\Z") else 0.45):
            a += rng.choice(QUANTS)
        out.append(a)
    return "".join(out)


def _alt(rng, depth):
    return "|".join(_seq(rng, depth) for _ in range(rng.choice([1, 1, 1, 2, 2, 3])))


def random_pattern(rng, depth):
    p = _alt(rng, depth)
    if rng.random() < 0.06 and p:
        # textual damage: the parsers must agree on rejection as well
        i = rng.randrange(len(p))
        p = p[:i] + rng.choice(["", "(", ")", "[", "*", "{", "\\", "?", "+", "|"]) + p[i + (rng.random() < 0.5):]
    return p


# loops over groups, empty iterations, captures kept / dropped on backtracking: always run
TRICKY = [
    "(a|b*)*", "(a*)*", "(a*)+", "(a*)+?", "(?:(a)|b)*", "(?:(a)|(b))*", "(a|ab)(c|bcd)(d*)", "(?:a|(b))*?c", "(a?)*?b",
    "()*", "(|a)+", "(a|)+", "(?:a*?)*", "(a*?)*?", "(a*?)*?b", "((a)|b)*", "((a)|b)*?c", "(a(?=(b))|c)*", "(?:(?=(a))a)*",
    "(?:(a)(?!b)|ab)*", "(a){2}", "(a|b){1,2}?b", "(?:(a)|(b)|(c))+", "(?:a(b)?)+", "(?:(a)?b)+", "(a*)*b", "(a*){2,}",
    "(?:(a)|b){,2}", "(?:^|(a))*", "(?:$|(a))*", "(?:(a)|\\Z)*", "(?=(a+))a*b", "(?!(a)b)a", "(?<=a)(b)|(a)", "a*?$",
    "(a*?)(\\s*)$", "[^a]*\\s*$", "(\\S+)\\s*", "^\\s*(a|b)+?\\s", "(?:(a)|(?:(b)|(c))*)*", "(?:a|())+", "(?:()|a)+",
    "(?:(a)|b|())*c", "((?:a|b)*?)(b*)", "(a+|b+)*c", "(?:(a+)|(b+))*?c", "(?:(a){1,2}?){2}", "((a)|(b))+?\\Z",
]


def random_string(rng, maxlen=8):
    return "".join(rng.choice(ALPHA_RAND) for _ in range(rng.randint(0, maxlen)))


# ------------------------------------------------------------------ the check

def _compare(out, what, pattern, strings, search, answers):
    """answers: the driver's list for `strings`; CPython is asked here"""
    cre = py_compile(pattern)
    n_bad = 0
    for s, ans in zip(strings, answers):
        impl = py_spans(cre.search(s) if search else cre.match(s))
        if impl is not None:
            out.count("regex:" + what + ":matched")
        if ans != impl:
            n_bad += 1
            if n_bad <= 3:
                out.mismatch("regex engine model vs CPython re (" + what + ", " + ("search" if search else "match") + ")",
                             {"pattern": pattern, "string": s}, impl, ans)
    return n_bad


def check_regex(out, rng, tier, model_ok):
    """(a) the live patterns exhaustively on short strings + random long ones; (b) random subset patterns."""
    thorough = tier == "thorough"
    marker, name = live_marker_pattern(), live_name_pattern()
    if marker is None:
        out.count("regex:live_marker_pattern_unobservable")
    if name is None:
        out.count("regex:live_name_pattern_unobservable")
    if not model_ok:
        out.count("regex:skipped_no_model")
        return
    ops, pend = [], []

    # (a) live patterns
    maxlen = 6 if thorough else 4
    short = ["".join(t) for L in range(maxlen + 1) for t in itertools.product(ALPHA_LIVE, repeat=L)]
    longer = []
    for _ in range(400 if thorough else 120):
        n = rng.choice([5, 6, 7, 9, 12, 20, 40])
        pre = rng.choice(["", "", "*", "**", "***", "****", ":", "::", ":::", "::::", " ", " **", "\t **", "\n"])
        suf = rng.choice(["", "", ":", ": ", ":\n", ":\t ", ":x", " ", "\n", "\n\n", " \n", "*"])
        body = "".join(rng.choice(ALPHA_LIVE + ["b", " ", "\x1c"]) for _ in range(n))
        longer.append(pre + body + suf)
    live_strings = short + longer
    for what, pat, search in (("marker", marker, False), ("name", name, True)):
        if pat is None:
            continue
        d, w = tables_for(live_strings)
        ops.append({"op": "re_many", "pattern": pat, "strings": live_strings, "search": search, "digits": d, "words": w})
        pend.append((what, pat, live_strings, search))
    out.count("regex:live_strings", len(live_strings))

    # (b) random patterns x random strings
    n_pat = 6000 if thorough else 700
    n_str = 8
    for i in range(n_pat):
        pat = random_pattern(rng, rng.choice([1, 2, 2, 3, 3, 4]))
        if py_compile(pat) is None:
            out.count("regex:random_pattern_rejected_by_cpython")
            ops.append({"op": "re_parse_ok", "pattern": pat})
            pend.append(("rejected", pat, None, None))
            continue
        strings = [random_string(rng) for _ in range(n_str)]
        if i % 5 == 0:
            strings += ["", "\n", "a\n", "ab", "aab", "a:b"]
        d, w = tables_for(strings)
        for search in (False, True):
            ops.append({"op": "re_many", "pattern": pat, "strings": strings, "search": search, "digits": d, "words": w})
            pend.append(("random", pat, strings, search))

    tricky_strings = ["".join(t) for L in range(6 if thorough else 5) for t in itertools.product("abc", repeat=L)] + \
                     ["a\n", "ab\n", "\n", "a b", "ab ", " a", "aab c"]
    for pat in TRICKY:
        d, w = tables_for(tricky_strings)
        for search in (False, True):
            ops.append({"op": "re_many", "pattern": pat, "strings": tricky_strings, "search": search, "digits": d, "words": w})
            pend.append(("tricky", pat, tricky_strings, search))

    answers = common.run_model(ops)
    for (what, pat, strings, search), ans in zip(pend, answers):
        if what == "rejected":
            # CPython rejects: the model's parser must not claim the pattern (its `none` covers "rejected by re.compile")
            if ans is True:
                out.mismatch("regex parser model accepts a pattern CPython rejects", {"pattern": pat}, "re.error", True)
            continue
        if isinstance(ans, dict) and "parse_error" in ans:
            if what in ("random", "tricky"):
                out.count("regex:" + what + "_pattern_outside_subset")  # CPython accepts, the model's subset does not
            else:
                out.count("regex:live_" + what + "_pattern_outside_subset")
                out.notes.append("regex: the live " + what + " pattern is outside the engine model's subset: "
                                 + str(ans["parse_error"]))
            continue
        if isinstance(ans, dict) and "error" in ans:
            out.mismatch("driver error (regex)", {"pattern": pat}, None, ans)
            continue
        out.count("regex:" + what + "_pattern_runs")
        out.evaluations += len(strings)
        _compare(out, what, pat, strings, search, ans)
    out.nontrivial.add(hash(("regex", marker, name)))


def find_disagreement(pattern, limit=20, maxlen=6, given=()):
    """strings on which `dispatch(pyMatch(parse(pattern)))` differs from the hand model `classify` (the driver
    enumerates every string up to `maxlen` over a marker alphabet).  [] when nothing differs, the pattern is outside
    the model's subset, or there is no driver."""
    if pattern is None or not common.DRIVER.exists():
        return []
    try:
        ans = common.run_model([{"op": "re_vs_classify", "pattern": pattern, "alphabet": "*:a \n",
                                 "maxlen": maxlen, "limit": limit, "strings": list(given)}])[0]
    except common.InfraError:
        return []
    if not isinstance(ans, list):
        return []
    return [a["s"] for a in ans if isinstance(a, dict) and isinstance(a.get("s"), str)]
