"""Shared pieces for the reader-side properties (C01 C02 C07 C08 C10 C11 C12 C13):
oracle tables for the model's `Ext`, canonical forms of the implementation's results, fixer
configurations, and generators of well-formed tables / grids (DESIGN.md §3)."""
import datetime
import io
import logging
import json
import math
import re
import warnings

from harness import common
from harness.common import cell_to_json, float_tok, grid_to_json

logging.disable(logging.CRITICAL)

SPACE_CPS = [9, 10, 11, 12, 13, 28, 29, 30, 31, 32, 133, 160, 5760] + list(range(8192, 8203)) + \
            [8232, 8233, 8239, 8287, 12288]


# --------------------------------------------------------------------------- Ext oracle tables

def ts_tok(x):
    import pandas as pd
    if x is None or x is pd.NaT or (isinstance(x, float) and math.isnan(x)):
        return "NaT"
    try:
        if pd.isna(x):
            return "NaT"
    except (TypeError, ValueError):
        pass
    return pd.Timestamp(x).isoformat()


def ext_tables(cells):
    """CPython / pandas primitives evaluated directly (never through pdtable) for every string cell."""
    import pandas as pd
    floats, dts, digits = {}, {}, set()
    for row in cells:
        for c in row:
            if not isinstance(c, str):
                continue
            if c not in floats:
                try:
                    floats[c] = float_tok(float(c.strip().lower()))
                except ValueError:
                    floats[c] = None
            v = c.strip()
            if v and v not in dts:
                if v[0].isdigit() and ord(v[0]) > 127:
                    digits.add(v[0])
                if v[0].isdigit():
                    try:
                        with warnings.catch_warnings():
                            warnings.simplefilter("ignore")
                            dts[v] = {"ok": ts_tok(pd.to_datetime(v))}
                    except ValueError:
                        dts[v] = "ValueError"
                    except Exception as e:  # noqa: BLE001 — the class is the datum
                        dts[v] = {"raises": type(e).__name__}
    return {"floats": floats, "dts": dts, "digits": "".join(sorted(digits))}


# --------------------------------------------------------------------------- fixers

FIXERS = {
    "strict": {"stop": True, "repFloat": "nan", "repOnoff": False, "repDt": "NaT"},
    "lenient": {"stop": False, "repFloat": "nan", "repOnoff": False, "repDt": "NaT"},
    "custom": {"stop": False, "repFloat": "-1.0", "repOnoff": True, "repDt": "2000-01-01T00:00:00"},
}


def make_fixer(kind):
    import pandas as pd
    from pdtable import ParseFixer
    if kind == "strict":
        f = ParseFixer()
    elif kind == "lenient":
        f = ParseFixer()
        f.stop_on_errors = False
        f._dbg = False
    else:
        class Custom(ParseFixer):
            def fix_illegal_cell_value(self, vtype, value):
                ParseFixer.fix_illegal_cell_value(self, vtype, value)
                return {"onoff": True, "datetime": pd.Timestamp("2000-01-01"), "float": -1.0}.get(vtype, -1.0)
        f = Custom()
        f.stop_on_errors = False
        f._dbg = False
    f._called_from_test = True
    return f


_MSG = [
    (re.compile(r"^Duplicate column '(.*)' at position (\d+)", re.S), lambda m: ["dup", m.group(1), int(m.group(2))]),
    (re.compile(r"^Missing data in row (\d+)", re.S), lambda m: ["missing", int(m.group(1))]),
    # tolerant of re-wording after the parts that name the defect (value text and vtype); the blank the present
    # wording has after the vtype is optional
    (re.compile(r"^Illegal value '(.*)' for unit '(\w+|-) ?'", re.S),
     lambda m: ["illegal", m.group(2), m.group(1)]),
]


_VTYPES = ("float", "onoff", "datetime", "-")
_QUOTED = re.compile(r"'([^']*)'", re.S)
_INT = re.compile(r"(?<![\w.])(\d+)(?![\w.])")


def _by_naming_parts(s):
    """classify a fixer message by the parts that NAME the defect, whatever the words around them:
    an illegal cell    quotes the value text and (later) the vtype        -> ["illegal", vtype, value]
    a duplicate name   quotes the column name (and the table) and carries a position number -> ["dup", name, pos]
    a short row        carries a row number and quotes at most the table  -> ["missing", row]"""
    quoted = _QUOTED.findall(s)
    vt = [q.strip() for q in quoted[1:] if q.strip() in _VTYPES]
    if vt:
        return ["illegal", vt[0], quoted[0]]
    ints = _INT.findall(_QUOTED.sub("''", s))
    if ints and len(quoted) >= 2:
        return ["dup", quoted[0], int(ints[0])]
    if ints:
        return ["missing", int(ints[0])]
    return None


def canon_msgs(messages):
    out = []
    for s in messages:
        for rx, f in _MSG:
            m = rx.match(s)
            if m:
                out.append(f(m))
                break
        else:
            out.append(_by_naming_parts(s) or ["unparsed", s[:60]])
    return out


class FixerObs(dict):
    """what was observed of a fixer.  The public surface is `fixes` (a total) and `messages`; the split into errors
    and warnings is compared only when it can be observed — against a side that has the split, a side that has only
    the total is compared by the total"""

    def __eq__(self, other):
        if not isinstance(other, dict):
            return NotImplemented
        a, b = dict(self), dict(other)
        # the log of one read is compared as a bag: in which order the columns of a table are parsed (hence in which
        # order their messages are logged) is promised by nothing
        for d in (a, b):
            if isinstance(d.get("msgs"), list):
                d["msgs"] = sorted(json.dumps(m, sort_keys=True, default=str) for m in d["msgs"])
        if ("errors" in a) != ("errors" in b):
            for d in (a, b):
                if "errors" in d:
                    d["fixes"] = d.pop("errors") + d.pop("warnings")
        return a == b

    def __ne__(self, other):
        r = self.__eq__(other)
        return r if r is NotImplemented else not r

    __hash__ = None


def canon_fixer(f):
    e, w = getattr(f, "_errors", None), getattr(f, "_warnings", None)
    if isinstance(e, int) and isinstance(w, int):
        return FixerObs({"errors": e, "warnings": w, "msgs": canon_msgs(f.messages)})
    return FixerObs({"fixes": f.fixes, "msgs": canon_msgs(f.messages)})


# --------------------------------------------------------------------------- canonical results

def canon_values(arr):
    """numpy array / list produced by a column parser -> {"k", "v"} as the model prints it"""
    import numpy as np
    if isinstance(arr, list):
        return {"k": "raw", "v": []} if not arr else {"k": "list", "v": [str(x) for x in arr]}
    kind = arr.dtype.kind
    if kind in "US":
        return {"k": "text", "v": [str(x) for x in arr.tolist()]}
    if kind == "b":
        return {"k": "onoff", "v": [bool(x) for x in arr.tolist()]}
    if kind == "f":
        return {"k": "num", "v": [float_tok(float(x)) for x in arr.tolist()]}
    if kind in "OM":
        vals = list(arr) if kind == "O" else list(arr.tolist())
        return {"k": "dt", "v": [ts_tok(x) for x in vals]}
    return {"k": "dtype:" + str(arr.dtype), "v": [str(x) for x in arr.tolist()]}


def impl_precursor(cells, fixer_kind="strict"):
    from pdtable.io.parsers.blocks import make_table_json_precursor
    f = make_fixer(fixer_kind)
    try:
        with warnings.catch_warnings():
            warnings.simplefilter("ignore")
            pre, transposed = make_table_json_precursor([list(r) for r in cells], origin="x", fixer=f)
    except Exception as e:  # noqa: BLE001
        return {"exc": type(e).__name__}
    return {"ok": {
        "name": pre["name"], "transposed": transposed, "destinations": list(pre["destinations"].keys()),
        "names": list(pre["columns"].keys()), "units": list(pre["units"]),
        "columns": [canon_values(v) for v in pre["columns"].values()],
        "fixer": canon_fixer(f)}}


def canon_table(t, with_fixer=None):
    """a pdtable Table -> the model's table form (dtype kind decides the column kind)"""
    df = t.df
    cols = []
    for name in df.columns:
        s = df[name]
        if len(df) == 0:
            cols.append({"k": "raw", "v": []})
            continue
        kind = s.dtype.kind
        if kind in "OUST":
            cols.append({"k": "text", "v": [str(x) for x in s.tolist()]})
        elif kind == "b":
            cols.append({"k": "onoff", "v": [bool(x) for x in s.tolist()]})
        elif kind in "fiu":
            cols.append({"k": "num", "v": [float_tok(float(x)) for x in s.tolist()]})
        elif kind == "M":
            cols.append({"k": "dt", "v": [ts_tok(x) for x in s.tolist()]})
        else:
            cols.append({"k": "dtype:" + str(s.dtype), "v": [str(x) for x in s.tolist()]})
    d = {"name": t.name, "transposed": bool(t.metadata.transposed),
         "destinations": sorted(t.metadata.destinations), "names": [str(c) for c in df.columns],
         "units": list(t.units), "columns": cols}
    if with_fixer is not None:
        d["fixer"] = canon_fixer(with_fixer)
    return d


def impl_make_table(cells, fixer_kind="strict"):
    from pdtable.io.parsers.blocks import make_table
    f = make_fixer(fixer_kind)
    try:
        with warnings.catch_warnings():
            warnings.simplefilter("ignore")
            t = make_table([list(r) for r in cells], fixer=f)
    except Exception as e:  # noqa: BLE001
        return {"exc": type(e).__name__}
    return {"ok": canon_table(t, with_fixer=f)}


def model_table_canon(ans):
    """model answer of op make_table -> same shape as canon_table (destinations as a sorted set)"""
    if "ok" in ans:
        d = dict(ans["ok"])
        d["destinations"] = sorted(set(d["destinations"]))
        return {"ok": d}
    return ans


def model_op(op, cells, fixer_kind="strict"):
    return {"op": op, "cells": grid_to_json(cells), "ext": ext_tables(cells), "fixer": FIXERS[fixer_kind]}


# --------------------------------------------------------------------------- generators

TEXT_ALPHA = ["a", "b", "Z", "é", " ", " ", "-", "n", "N", "a", "1", "0", ".", "*", ":", "_", "x", "µ", "\t"]
NAME_ALPHA = ["a", "b", "c", "é", "_", "1", "x", " ", "-", "T", "e\u0301", "\u00e9", "\uff21"]
UNITS_NUM = ["-", "m", "kg", "mm", "°C", "m/s", "1/s", "%", "N m", "Text", "ONOFF"]
NUM_SPELL = ["0", "1", "-1", "1.5", "-0.0", "1e3", "1E-3", ".5", "5.", "+2", "1_000", "inf", "-inf", "Infinity",
             "1e400", "0x10", "1,5", "１２", "nan", "NaN", "-", " - ", " NAN ", "+nan", "-nan", "", " ", "abc", "1 2",
             "3.14159265358979", "123456789012345678", "1e-400", "--1", "١٢"]
ONOFF_SPELL = ["0", "1", "true", "false", "True", "FALSE", " tRuE ", " 0 ", "1.0", "2", "yes", "", "on", "-", "nan", "TRUE\n"]
DT_SPELL = ["2020-01-02", "2020-01-02 03:04:05", "2020-01-02T03:04:05.000006", "2020-1-2", "20200102", "1/2/2020",
            "2020-13-45", "-", "nan", "NaN", " NAN ", " - ", "", "abc", "x2020", "2020", "12:30", "2020-01-02T00:00:00Z",
            "2020-01-02 00:00:00+01:00", "99999999999999999999", "1e400", "0", "²", "٣", "2020-02-30", "2262-04-12",
            "1677-01-01", "0001-01-01", "1", "1.5", "9" * 40, "2020-01-02 25:00"]
# UTC offsets of both signs with and without a minutes part, in the ISO spellings pandas reads
OFFSET_SPELL = ["2020-08-04 08:00:00-03:30", "2020-08-04T08:00:00-09:30", "2020-08-04 08:00:00-00:30",
                "2020-08-04 08:00:00+05:45", "2020-08-04T08:00:00+0530", "2020-08-04T08:00:00-0330",
                "2020-08-04 08:00:00.5-03:30", "2020-08-04 08:00:00-11:00", "2020-08-04 08:00:00+14:00",
                "2020-08-04 08:00-02:30", "2020-08-04T08:00:00.123456-04:30"]
DT_SPELL = DT_SPELL + OFFSET_SPELL
TEXT_SPELL = ["", "a", " a ", "-", "nan", "None", "**x", ":a", "k:", "1.5", "é µ", "a;b", "*", "x" * 30, " ", "a\x00b", "z\x00", "\x00",
              "a\x0cb", "p\u2028q", "u\x85v", "r\x1cs", "v\x0bw"]


def case_patterns(word):
    """every upper/lower-case pattern of a word"""
    import itertools
    return ["".join(t) for t in itertools.product(*[(c.lower(), c.upper()) for c in word])]


# "any letter case": all case patterns of the marker and boolean words, bare and padded
NAN_CASES = case_patterns("nan") + [" " + w + "\t" for w in case_patterns("nan")]
BOOL_CASES = case_patterns("true") + case_patterns("false") + [" " + w + " " for w in case_patterns("true")[3::5]]
NUM_SPELL = NUM_SPELL + NAN_CASES
DT_SPELL = DT_SPELL + NAN_CASES
ONOFF_SPELL = ONOFF_SPELL + BOOL_CASES
NATIVE = [None, 0, 1, 2, -3, 1.5, 0.0, -0.0, 1.0, float("nan"), float("inf"), True, False,
          datetime.datetime(2020, 1, 2), datetime.datetime(2020, 1, 2, 3, 4, 5, 6), datetime.date(2020, 1, 2),
          datetime.time(1, 2), 10 ** 20, 1 / 3, 0.1 + 0.2, 960.3363318270713]
try:        # numpy scalars that ARE Python floats / strings (np.float64, np.str_), and a zone-aware datetime
    import numpy as _np
    NATIVE = NATIVE + [_np.float64(2.5), _np.float64(1.0), _np.float64("nan"), _np.str_("7"), _np.str_(" NaN "),
                       datetime.datetime(2020, 1, 2, 3, 4, 5, tzinfo=datetime.timezone.utc),
                       datetime.datetime(2020, 1, 2, 3, 4, 5, tzinfo=datetime.timezone(datetime.timedelta(hours=-3, minutes=-30)))]
except ImportError:
    pass


def rand_text(rng, alpha=TEXT_ALPHA, lo=0, hi=6):
    return "".join(rng.choice(alpha) for _ in range(rng.randint(lo, hi)))


def rand_cell(rng, kind, native=False):
    """a raw cell spelling for a column of the given kind (mostly legal, some illegal)"""
    if native and rng.random() < 0.5:
        return rng.choice(NATIVE)
    r = rng.random()
    if kind == "text":
        return rng.choice(TEXT_SPELL) if r < 0.5 else rand_text(rng)
    if kind == "onoff":
        return rng.choice(ONOFF_SPELL)
    if kind == "datetime":
        return rng.choice(DT_SPELL)
    if r < 0.6:
        return rng.choice(NUM_SPELL)
    if r < 0.9:
        return repr(rng.choice([rng.randint(-1000, 1000), rng.random() * 10 ** rng.randint(-5, 12), -rng.random()]))
    return rand_text(rng)


def unit_for(rng, kind):
    return {"text": "text", "onoff": "onoff", "datetime": "datetime"}.get(kind) or rng.choice(UNITS_NUM)


def rand_grid(rng, native=False, malformed=0.15):
    """a table block as a cell grid: header shapes x column kinds x spellings x orientation"""
    n_col = rng.choice([0, 1, 1, 2, 2, 3, 4])
    n_row = rng.choice([0, 1, 1, 2, 3, 5])
    transposed = rng.random() < 0.4
    kinds = [rng.choice(["text", "onoff", "datetime", "num", "num"]) for _ in range(n_col)]
    names = []
    for j in range(n_col):
        nm = rand_text(rng, NAME_ALPHA, 1, 4).strip() or "c"
        if rng.random() < 0.12 and names:
            nm = rng.choice(names)                      # duplicate
        names.append(nm)
    units = [unit_for(rng, k) for k in kinds]

    def pad(s):
        return (rng.choice(["", " ", "\t", "  "]) + s + rng.choice(["", " ", "  "])) if rng.random() < 0.3 else s
    name = rand_text(rng, NAME_ALPHA, 0, 5)
    head = "**" + name + ("*" if transposed else "")
    dest = rng.choice(["all", "a b", " all ", "a  b", "x a x", "", None if native else "all", 5 if native else "d",
                       datetime.datetime(2020, 1, 1) if native else "e"])
    data = [[rand_cell(rng, k, native) for k in kinds] for _ in range(n_row)]
    name_cells = [pad(n) for n in names]
    unit_cells = [pad(u) for u in units]
    bad = rng.random() < malformed
    if bad and native and n_col:
        j = rng.randrange(n_col)
        which = rng.choice(["name", "unit"])
        if which == "name":
            name_cells[j] = rng.choice([5, 1.5, True, None])
        else:
            unit_cells[j] = rng.choice([5, None, 2.5])
    grid = [[head] + ([""] if rng.random() < 0.5 else []), [dest]]
    if transposed:
        for j in range(n_col):
            line = [name_cells[j], unit_cells[j]] + [r[j] for r in data]
            if rng.random() < 0.2:
                line += [rng.choice(["", None, " "])] * rng.randint(1, 3)        # trailing blanks
            if bad and rng.random() < 0.3:
                line = line[: rng.randint(1, len(line))]                           # cut short
            grid.append(line)
    else:
        if n_col or rng.random() < 0.5:
            nrow = list(name_cells)
            if rng.random() < 0.25:
                nrow += ["", "comment", "more"]                                   # comments after a blank cell
            grid.append(nrow)
            if not (bad and rng.random() < 0.2):
                urow = list(unit_cells)
                if bad and rng.random() < 0.3 and urow:
                    urow = urow[:-1]
                grid.append(urow + ([""] * rng.randint(0, 2)))
                for r in data:
                    r = list(r)
                    if rng.random() < 0.15:
                        r += [""] * rng.randint(1, 3)
                    if bad and rng.random() < 0.3 and r:
                        r = r[: rng.randint(0, len(r) - 1)]                        # short row
                    grid.append(r)
    if bad and rng.random() < 0.2:
        grid = grid[: rng.randint(1, len(grid))]
    return grid, {"transposed": transposed, "kinds": kinds, "n_row": n_row, "bad": bad}
